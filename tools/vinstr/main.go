// vinstr: source rewriter of engine E1 (DESIGN.md 3.1). usage: vinstr -mod <modpath> -instr a.go,b.go -dir <dir>
package main

import (
	"bytes"
	"flag"
	"fmt"
	"go/ast"
	"go/format"
	"go/parser"
	"go/token"
	"os"
	"path/filepath"
	"strconv"
	"strings"
)

var modPath string

func main() {
	dir := flag.String("dir", ".", "")
	instr := flag.String("instr", "", "")
	flag.StringVar(&modPath, "mod", "github.com/cloudwego/shmipc-go", "")
	flag.Parse()
	instrSet := map[string]bool{}
	for _, f := range strings.Split(*instr, ",") {
		if f != "" {
			instrSet[f] = true
		}
	}
	ents, _ := os.ReadDir(*dir)
	for _, e := range ents {
		n := e.Name()
		if !strings.HasSuffix(n, ".go") || strings.HasSuffix(n, "_test.go") {
			continue
		}
		if err := rewriteFile(filepath.Join(*dir, n), instrSet[n]); err != nil {
			fmt.Fprintln(os.Stderr, "vinstr:", n, err)
			os.Exit(2)
		}
	}
}

type rw struct {
	fset     *token.FileSet
	fn       string
	file     string
	nPoint   int
	labelSeq int
	usesVS   bool
}

func rewriteFile(path string, full bool) error {
	fset := token.NewFileSet()
	f, err := parser.ParseFile(fset, path, nil, parser.ParseComments)
	if err != nil {
		return err
	}
	r := &rw{fset: fset, file: filepath.Base(path)}
	// import substitution (all files): sync -> vsync ; instrumented files: sync/atomic -> vatomic
	for _, imp := range f.Imports {
		p, _ := strconv.Unquote(imp.Path.Value)
		switch {
		case p == "sync":
			imp.Path.Value = strconv.Quote(modPath + "/vsched/vsync")
			if imp.Name == nil {
				imp.Name = ast.NewIdent("sync")
			}
		case p == "sync/atomic" && full:
			imp.Path.Value = strconv.Quote(modPath + "/vsched/vatomic")
			if imp.Name == nil {
				imp.Name = ast.NewIdent("atomic")
			}
		}
	}
	if full {
		for _, d := range f.Decls {
			fd, ok := d.(*ast.FuncDecl)
			if !ok || fd.Body == nil || fd.Name.Name == "init" {
				continue
			}
			r.fn = fd.Name.Name
			r.block(fd.Body, nil)
		}
		if r.usesVS {
			addImport(f, modPath+"/vsched", "vsched")
		}
		for _, imp := range f.Imports {
			p, _ := strconv.Unquote(imp.Path.Value)
			if p == "runtime" {
				keep(f, "runtime", "Gosched")
			}
			if strings.HasSuffix(p, "/gopool") {
				keep(f, "gopool", "Go")
			}
		}
	}
	var buf bytes.Buffer
	// drop comments attached positions problems: keep comments only when not instrumenting statements
	if full {
		f.Comments = nil
	}
	if err := format.Node(&buf, fset, f); err != nil {
		return err
	}
	return os.WriteFile(path, buf.Bytes(), 0644)
}

func keep(f *ast.File, pkg, sym string) {
	f.Decls = append(f.Decls, &ast.GenDecl{Tok: token.VAR, Specs: []ast.Spec{&ast.ValueSpec{
		Names: []*ast.Ident{ast.NewIdent("_")}, Values: []ast.Expr{&ast.SelectorExpr{X: ast.NewIdent(pkg), Sel: ast.NewIdent(sym)}}}}})
}

func addImport(f *ast.File, path, name string) {
	spec := &ast.ImportSpec{Name: ast.NewIdent(name), Path: &ast.BasicLit{Kind: token.STRING, Value: strconv.Quote(path)}}
	gd := &ast.GenDecl{Tok: token.IMPORT, Specs: []ast.Spec{spec}}
	f.Decls = append([]ast.Decl{gd}, f.Decls...)
}

func (r *rw) vs(fn string, args ...ast.Expr) *ast.CallExpr {
	r.usesVS = true
	return &ast.CallExpr{Fun: &ast.SelectorExpr{X: ast.NewIdent("vsched"), Sel: ast.NewIdent(fn)}, Args: args}
}

func (r *rw) point(pos token.Pos) ast.Stmt {
	p := r.fset.Position(pos)
	r.nPoint++
	return &ast.ExprStmt{X: r.vs("Point", &ast.BasicLit{Kind: token.STRING, Value: strconv.Quote(fmt.Sprintf("%s:%d:%s", r.file, p.Line, r.fn))})}
}

// loopCtx tracks the nearest enclosing for statement (for continue-label fixing)
type loopCtx struct {
	label *string // label name pointer; allocated lazily
	need  *bool
}

func (r *rw) block(b *ast.BlockStmt, lc *loopCtx) {
	if b == nil {
		return
	}
	b.List = r.stmts(b.List, lc)
}

func (r *rw) stmts(list []ast.Stmt, lc *loopCtx) []ast.Stmt {
	var out []ast.Stmt
	for _, s := range list {
		out = append(out, r.point(s.Pos()))
		out = append(out, r.stmt(s, lc)...)
	}
	return out
}

// stmt rewrites one statement, may expand to several
func (r *rw) stmt(s ast.Stmt, lc *loopCtx) []ast.Stmt {
	switch s := s.(type) {
	case *ast.BlockStmt:
		r.block(s, lc)
	case *ast.IfStmt:
		r.exprsIn(s.Init)
		s.Cond = r.expr(s.Cond)
		r.block(s.Body, lc)
		if s.Else != nil {
			switch e := s.Else.(type) {
			case *ast.BlockStmt:
				r.block(e, lc)
			case *ast.IfStmt:
				r.stmt(e, lc)
			}
		}
	case *ast.ForStmt:
		r.exprsIn(s.Init)
		if s.Cond != nil {
			s.Cond = r.expr(s.Cond)
		}
		r.exprsIn(s.Post)
		need := false
		var name string
		nlc := &loopCtx{label: &name, need: &need}
		r.block(s.Body, nlc)
		if need {
			return []ast.Stmt{&ast.LabeledStmt{Label: ast.NewIdent(name), Stmt: s}}
		}
	case *ast.RangeStmt:
		s.X = r.expr(s.X)
		need := false
		var name string
		nlc := &loopCtx{label: &name, need: &need}
		r.block(s.Body, nlc)
		if need {
			return []ast.Stmt{&ast.LabeledStmt{Label: ast.NewIdent(name), Stmt: s}}
		}
	case *ast.SwitchStmt:
		r.exprsIn(s.Init)
		if s.Tag != nil {
			s.Tag = r.expr(s.Tag)
		}
		for _, c := range s.Body.List {
			cc := c.(*ast.CaseClause)
			for i := range cc.List {
				cc.List[i] = r.expr(cc.List[i])
			}
			cc.Body = r.stmts(cc.Body, lc)
		}
	case *ast.TypeSwitchStmt:
		for _, c := range s.Body.List {
			cc := c.(*ast.CaseClause)
			cc.Body = r.stmts(cc.Body, lc)
		}
	case *ast.LabeledStmt:
		inner := r.stmt(s.Stmt, lc)
		if len(inner) == 1 {
			if ls, ok := inner[0].(*ast.LabeledStmt); ok {
				// for statement got its own label for continue; keep both by nesting
				s.Stmt = ls
			} else {
				s.Stmt = inner[0]
			}
			return []ast.Stmt{s}
		}
		panic("labeled stmt expanded")
	case *ast.SelectStmt:
		return r.selectStmt(s, lc)
	case *ast.SendStmt:
		return []ast.Stmt{&ast.ExprStmt{X: r.vs("Send", r.expr(s.Chan), r.expr(s.Value))}}
	case *ast.GoStmt:
		s.Call = r.expr(s.Call).(*ast.CallExpr)
		fn := &ast.FuncLit{Type: &ast.FuncType{Params: &ast.FieldList{}}, Body: &ast.BlockStmt{List: []ast.Stmt{&ast.ExprStmt{X: s.Call}}}}
		// NOTE: arguments evaluated late in spike (acceptable: call sites here are `go s.send()` style)
		return []ast.Stmt{&ast.ExprStmt{X: r.vs("Go", fn)}}
	case *ast.DeferStmt:
		s.Call = r.expr(s.Call).(*ast.CallExpr)
	case *ast.ExprStmt:
		s.X = r.expr(s.X)
	case *ast.AssignStmt:
		// v, ok := <-ch
		if len(s.Lhs) == 2 && len(s.Rhs) == 1 {
			if u, ok := s.Rhs[0].(*ast.UnaryExpr); ok && u.Op == token.ARROW {
				s.Rhs[0] = r.vs("Recv2", r.expr(u.X))
				return []ast.Stmt{s}
			}
		}
		for i := range s.Rhs {
			s.Rhs[i] = r.expr(s.Rhs[i])
		}
		for i := range s.Lhs {
			s.Lhs[i] = r.expr(s.Lhs[i])
		}
	case *ast.ReturnStmt:
		for i := range s.Results {
			s.Results[i] = r.expr(s.Results[i])
		}
	case *ast.IncDecStmt:
		s.X = r.expr(s.X)
	case *ast.DeclStmt:
		if gd, ok := s.Decl.(*ast.GenDecl); ok {
			for _, sp := range gd.Specs {
				if vsp, ok := sp.(*ast.ValueSpec); ok {
					for i := range vsp.Values {
						vsp.Values[i] = r.expr(vsp.Values[i])
					}
				}
			}
		}
	case *ast.BranchStmt:
		if s.Tok == token.CONTINUE && s.Label == nil && lc != nil && lc.need != nil && *lc.need {
			// inside a rewritten select wrapper: handled in selectStmt via fixContinues
		}
	}
	return []ast.Stmt{s}
}

func (r *rw) exprsIn(s ast.Stmt) {
	if s == nil {
		return
	}
	switch s := s.(type) {
	case *ast.AssignStmt:
		for i := range s.Rhs {
			s.Rhs[i] = r.expr(s.Rhs[i])
		}
	case *ast.ExprStmt:
		s.X = r.expr(s.X)
	}
}

// expr rewrites receive expressions, runtime.Gosched, gopool.Go, and descends into func literals
func (r *rw) expr(e ast.Expr) ast.Expr {
	if e == nil {
		return nil
	}
	switch e := e.(type) {
	case *ast.UnaryExpr:
		if e.Op == token.ARROW {
			return r.vs("Recv", r.expr(e.X))
		}
		e.X = r.expr(e.X)
	case *ast.BinaryExpr:
		e.X = r.expr(e.X)
		e.Y = r.expr(e.Y)
	case *ast.ParenExpr:
		e.X = r.expr(e.X)
	case *ast.CallExpr:
		if sel, ok := e.Fun.(*ast.SelectorExpr); ok {
			if id, ok := sel.X.(*ast.Ident); ok {
				if id.Name == "gopool" && sel.Sel.Name == "Go" {
					for i := range e.Args {
						e.Args[i] = r.expr(e.Args[i])
					}
					return r.vs("Go", e.Args...)
				}
				if id.Name == "runtime" && sel.Sel.Name == "Gosched" {
					return r.vs("Gosched")
				}
			}
		}
		e.Fun = r.expr(e.Fun)
		for i := range e.Args {
			e.Args[i] = r.expr(e.Args[i])
		}
	case *ast.FuncLit:
		r.block(e.Body, nil)
	case *ast.SelectorExpr:
		e.X = r.expr(e.X)
	case *ast.IndexExpr:
		e.X = r.expr(e.X)
		e.Index = r.expr(e.Index)
	case *ast.SliceExpr:
		e.X = r.expr(e.X)
		e.Low, e.High, e.Max = r.expr(e.Low), r.expr(e.High), r.expr(e.Max)
	case *ast.StarExpr:
		e.X = r.expr(e.X)
	case *ast.CompositeLit:
		for i := range e.Elts {
			e.Elts[i] = r.expr(e.Elts[i])
		}
	case *ast.KeyValueExpr:
		e.Value = r.expr(e.Value)
	case *ast.TypeAssertExpr:
		e.X = r.expr(e.X)
	}
	return e
}

func (r *rw) selectStmt(s *ast.SelectStmt, lc *loopCtx) []ast.Stmt {
	hasDefault := false
	for _, c := range s.Body.List {
		if c.(*ast.CommClause).Comm == nil {
			hasDefault = true
		}
	}
	for _, c := range s.Body.List {
		cc := c.(*ast.CommClause)
		cc.Body = r.stmts(cc.Body, lc)
	}
	if hasDefault {
		return []ast.Stmt{s}
	}
	r.labelSeq++
	label := fmt.Sprintf("vschedSel%d", r.labelSeq)
	s.Body.List = append(s.Body.List, &ast.CommClause{Body: []ast.Stmt{
		&ast.ExprStmt{X: r.vs("BlockYield")},
		&ast.BranchStmt{Tok: token.GOTO, Label: ast.NewIdent(label)},
	}})
	return []ast.Stmt{&ast.LabeledStmt{Label: ast.NewIdent(label), Stmt: s}}
}

func fixContinues(list []ast.Stmt, lc *loopCtx, r *rw) {
	for _, st := range list {
		ast.Inspect(st, func(n ast.Node) bool {
			switch n := n.(type) {
			case *ast.ForStmt, *ast.RangeStmt, *ast.FuncLit:
				return false
			case *ast.BranchStmt:
				if n.Tok == token.CONTINUE && n.Label == nil {
					if *lc.label == "" {
						r.labelSeq++
						*lc.label = fmt.Sprintf("vschedLoop%d", r.labelSeq)
					}
					*lc.need = true
					n.Label = ast.NewIdent(*lc.label)
				}
			}
			return true
		})
	}
}
