#!/usr/bin/env python3
"""seedcheck.py <name> <property> <srcdir-with-OUT> [extra check ids...]
Confirms an independently written breaking change and records it under /verif/seeded/<name>/:
 1. scratch worktree of /repo HEAD (under /tmp, removed afterwards); patch applies, builds, full baseline suite passes with it
 2. the demonstration test fails with the change and passes without it
 3. the registered quick check(s) are run against /repo with the patch applied (and /repo is restored straight afterwards)
"""
import json, os, re, shutil, subprocess, sys, time
name, prop, src = sys.argv[1], sys.argv[2], sys.argv[3]
checks = [prop] + sys.argv[4:]
V = "/verif"
env = dict(os.environ, GOFLAGS="-mod=mod", GOPROXY="off", GOSUMDB="off", GOTOOLCHAIN="local")
out = os.path.join(V, "seeded", name)
os.makedirs(out, exist_ok=True)
patch = os.path.join(src, "OUT", "patch.diff")
demo = os.path.join(src, "OUT", "demo_test.go")
shutil.copy(patch, os.path.join(out, "patch.diff"))
shutil.copy(demo, os.path.join(out, "demo_test.go"))
if os.path.exists(os.path.join(src, "OUT", "README.md")):
    shutil.copy(os.path.join(src, "OUT", "README.md"), os.path.join(out, "README.agent.md"))
wt = "/var/tmp/seedchk-" + name
subprocess.run(["git", "-C", "/repo", "worktree", "remove", "--force", wt], stderr=subprocess.DEVNULL)
shutil.rmtree(wt, ignore_errors=True)
subprocess.run(["git", "-C", "/repo", "worktree", "add", "-q", "--detach", wt, "HEAD"], check=True)
meta = {"name": name, "breaks_property": prop, "ran": []}
def sh(cmd, cwd=wt, timeout=1800):
    r = subprocess.run(cmd, shell=True, cwd=cwd, env=env, stdout=subprocess.PIPE, stderr=subprocess.STDOUT, text=True, timeout=timeout)
    meta["ran"].append({"cmd": cmd, "rc": r.returncode, "tail": r.stdout[-600:]})
    return r
try:
    r = sh("git apply %s && go build ./..." % patch)
    meta["applies_and_builds"] = r.returncode == 0
    # isolated namespaces: the repository's tests use fixed ports and socket paths, and other runs may be going on
    r = sh("unshare -n -m sh -c 'mount -t tmpfs tmpfs /tmp; mount -t tmpfs tmpfs /dev/shm; ip link set lo up; go test -vet=off -count=1 -timeout 20m . 2>&1 | tail -3'")
    meta["baseline_suite_passes_with_change"] = r.returncode == 0 and "ok" in r.stdout and "FAIL" not in r.stdout
    shutil.copy(demo, os.path.join(wt, "zz_demo_test.go"))
    tests = re.findall(r"^func (Test\w+)\(", open(demo).read(), re.M)
    pat = "^(" + "|".join(tests) + ")$"
    r = sh("unshare -n -m sh -c 'mount -t tmpfs tmpfs /tmp; mount -t tmpfs tmpfs /dev/shm; ip link set lo up; go test -vet=off -count=1 -timeout 10m -run \"%s\" . 2>&1 | tail -5'" % pat)
    meta["demo_fails_with_change"] = "FAIL" in r.stdout or "panic" in r.stdout
    sh("git apply -R %s" % patch)
    r = sh("unshare -n -m sh -c 'mount -t tmpfs tmpfs /tmp; mount -t tmpfs tmpfs /dev/shm; ip link set lo up; go test -vet=off -count=1 -timeout 10m -run \"%s\" . 2>&1 | tail -5'" % pat)
    meta["demo_passes_without_change"] = r.returncode == 0 and "ok" in r.stdout and "FAIL" not in r.stdout
finally:
    subprocess.run(["git", "-C", "/repo", "worktree", "remove", "--force", wt])
    shutil.rmtree(wt, ignore_errors=True)
# our checks against the change: on /repo itself, undone straight afterwards (default), or - with SEEDCHECK_SCRATCH=1, for
# the time /repo is in use by a long run - on a scratch worktree handed to the driver through VERIF_REPO
scratch = os.environ.get("SEEDCHECK_SCRATCH") == "1"
if os.environ.get("SEEDCHECK_CONFIRM_ONLY") == "1":
    old = json.load(open(os.path.join(out, "meta.json")))
    for k in ("applies_and_builds", "baseline_suite_passes_with_change", "demo_fails_with_change", "demo_passes_without_change"):
        old[k] = meta.get(k)
    old["ran"] = meta["ran"]
    json.dump(old, open(os.path.join(out, "meta.json"), "w"), indent=1)
    print(json.dumps({k: v for k, v in old.items() if k != "ran"}, indent=1))
    sys.exit(0)
target = "/repo"
if scratch:
    target = "/var/tmp/seedrepo-" + name
    subprocess.run(["git", "-C", "/repo", "worktree", "remove", "--force", target], stderr=subprocess.DEVNULL)
    shutil.rmtree(target, ignore_errors=True)
    subprocess.run(["git", "-C", "/repo", "worktree", "add", "-q", "--detach", target, "HEAD"], check=True)
else:
    st = subprocess.run(["git", "-C", "/repo", "status", "--porcelain"], stdout=subprocess.PIPE, text=True).stdout.strip()
    if st:
        sys.exit("/repo is not clean: " + st)
meta["checks"] = {}
meta["checks_ran_against"] = "scratch worktree (VERIF_REPO)" if scratch else "/repo with the patch applied"
try:
    subprocess.run(["git", "-C", target, "apply", patch], check=True)
    for c in checks:
        t0 = time.time()
        e = dict(os.environ, VERIF_NOEVIDENCE="1", VERIF_REPLAYS_OUT=os.path.join(out, "replays-found"))
        if scratch:
            e["VERIF_REPO"] = target
        r = subprocess.run([os.path.join(V, "bin", "vcheck"), c, "quick"], env=e, stdout=subprocess.PIPE, stderr=subprocess.STDOUT, text=True)
        viol = [l for l in r.stdout.splitlines() if l.startswith("VIOLATION")]
        first = ""
        lines = r.stdout.splitlines()
        for i, l in enumerate(lines):
            if l.startswith("VIOLATION"):
                first = "\n".join(lines[i:i + 4])[:700]
                break
        meta["checks"][c] = {"rc": r.returncode, "caught": r.returncode == 1 and bool(viol), "seconds": round(time.time() - t0), "first": first}
        for l in viol:
            m = re.match(r"VIOLATION property=\S+ replay=(\S+)", l)
            if m and os.path.exists(m.group(1)) and "/replays/" in m.group(1):
                tracked = subprocess.run(["git", "-C", V, "ls-files", "--error-unmatch", m.group(1)], stdout=subprocess.DEVNULL, stderr=subprocess.DEVNULL).returncode == 0
                if not tracked:
                    os.remove(m.group(1))
finally:
    shutil.rmtree(os.path.join(out, "replays-found"), ignore_errors=True)
    if scratch:
        subprocess.run(["git", "-C", "/repo", "worktree", "remove", "--force", target])
        shutil.rmtree(target, ignore_errors=True)
    else:
        subprocess.run(["git", "-C", "/repo", "checkout", "--", "."], check=True)
json.dump(meta, open(os.path.join(out, "meta.json"), "w"), indent=1)
print(json.dumps({k: v for k, v in meta.items() if k != "ran"}, indent=1))
