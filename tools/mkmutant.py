#!/usr/bin/env python3
"""mkmutant.py <name> <file> <old> <new> [<file> <old> <new> ...]: writes /verif/mutants/<name>.patch (diff against /repo's working tree)"""
import sys, os, subprocess, tempfile, shutil
name = sys.argv[1]
args = sys.argv[2:]
tmp = tempfile.mkdtemp(prefix="mkmut.", dir="/var/tmp")
try:
    a, b = os.path.join(tmp, "a"), os.path.join(tmp, "b")
    os.makedirs(a); os.makedirs(b)
    files = set(args[0::3])
    for f in files:
        shutil.copy(os.path.join("/repo", f), os.path.join(a, f))
        shutil.copy(os.path.join("/repo", f), os.path.join(b, f))
    for i in range(0, len(args), 3):
        f, old, new = args[i:i+3]
        p = os.path.join(b, f)
        s = open(p).read()
        if s.count(old) != 1:
            sys.exit("mutant %s: pattern occurs %d times in %s" % (name, s.count(old), f))
        open(p, "w").write(s.replace(old, new))
    r = subprocess.run(["diff", "-ru", "a", "b"], cwd=tmp, stdout=subprocess.PIPE, text=True)
    open(os.path.join("/verif/mutants", name + ".patch"), "w").write(r.stdout)
    print("wrote mutants/%s.patch (%d lines)" % (name, len(r.stdout.splitlines())))
finally:
    shutil.rmtree(tmp)
