//go:build verif

package shmipc

// C14 - peer death and session close are contained and release every resource (engine E4/E2).
// Part 1 (in-process): a real session pair under a generated workload; at a generated moment the connection is severed
// (shutdown(2) on one end's descriptor) or Session.Close is called by 1-3 goroutines on one or both ends.

import (
	"fmt"
	"runtime/debug"
	"strings"
	"sync"
	"sync/atomic"
	"testing"
	"time"

	syscall "golang.org/x/sys/unix"
	"pgregory.net/rapid"
)

type deathCase struct {
	MemFd    bool   `json:"memfd"`
	Workers  int    `json:"workers"`   // client goroutines, each with its own stream doing request/response rounds
	CBServer bool   `json:"cb_server"` // server side of the streams in callback mode (else a reader goroutine per stream)
	MsgSize  int    `json:"msg_size"`
	Event    string `json:"event"`    // sever-client | sever-server | close-client | close-server | close-both
	Closers  int    `json:"closers"`  // concurrent callers of Session.Close
	AfterUs  int    `json:"after_us"` // the event happens this long after every worker has finished its rounds and parked
	Rounds   int    `json:"rounds"`
	Park     []bool `json:"park"` // worker i ends blocked in a read that nobody will satisfy (else it simply idles)
}

func genDeathCase(t *rapid.T) deathCase {
	return deathCase{
		MemFd:    rapid.Bool().Draw(t, "memfd"),
		Workers:  rapid.IntRange(1, 5).Draw(t, "workers"),
		CBServer: rapid.Bool().Draw(t, "cb"),
		MsgSize:  rapid.SampledFrom([]int{1, 1, 64, 64, 300, 300, 5000, 70000}).Draw(t, "size"),
		Event:    rapid.SampledFrom([]string{"sever-client", "sever-server", "close-client", "close-server", "close-both"}).Draw(t, "event"),
		Closers:  rapid.IntRange(1, 3).Draw(t, "closers"),
		AfterUs:  rapid.SampledFrom([]int{0, 10, 100, 1000}).Draw(t, "after"),
		Rounds:   rapid.IntRange(0, 12).Draw(t, "rounds"),
		Park:     rapid.SliceOfN(rapid.Bool(), 5, 5).Draw(t, "park"),
	}
}

// knownCloseRace recognises known finding close-races-active-user: the event loop closes the streams of a dying session
// (recycling their buffers) while an application goroutine is in the middle of a read or write call on one of them.
func knownCloseRace(stack string) bool {
	for _, pat := range []string{"linkedBuffer", "sliceList", "bufferSlice", "bufferList", "bufferManager", "sendQueue", "pendingData", "wakeUpPeer", "(*queue)"} {
		if strings.Contains(stack, pat) {
			return true
		}
	}
	return false
}

type deathCB struct {
	knownRace int32
	st       *Stream
	local    int32
	remote   int32
	consumed int64
}

func (d *deathCB) OnData(reader BufferReader) {
	debug.SetPanicOnFault(true)
	defer func() {
		if p := recover(); p != nil {
			if knownCloseRace(string(debug.Stack())) {
				atomic.AddInt32(&d.knownRace, 1)
				return
			}
			panic(p)
		}
	}()
	n := reader.Len()
	if n == 0 {
		return
	}
	b, err := reader.ReadBytes(n)
	if err != nil {
		return
	}
	cp := append([]byte(nil), b...)
	reader.ReleasePreviousRead()
	atomic.AddInt64(&d.consumed, int64(n))
	d.st.BufferWriter().WriteBytes(cp)
	d.st.Flush(false)
}
func (d *deathCB) OnLocalClose()  { atomic.AddInt32(&d.local, 1) }
func (d *deathCB) OnRemoteClose() { atomic.AddInt32(&d.remote, 1) }

type deathListenCB struct {
	mu  sync.Mutex
	cbs []*deathCB
}

func (l *deathListenCB) OnNewStream(s *Stream) {
	cb := &deathCB{st: s}
	l.mu.Lock()
	l.cbs = append(l.cbs, cb)
	l.mu.Unlock()
	s.SetCallbacks(cb)
}
func (l *deathListenCB) OnShutdown(reason string) {}

func deathRun(c deathCase, r *runCtx) {
	censusWarmupOnce()
	base := stableCensus()
	cfg := defaultPairCfg
	cfg.MemFd = c.MemFd
	cconf := cfg.config()
	sconf := *cconf
	lcb := &deathListenCB{}
	if c.CBServer {
		sconf.listenCallback = lcb
	}
	client, server, cerr, serr := newPairFromConfigs(cconf, &sconf)
	if cerr != nil || serr != nil {
		harnessFail("pair: %v %v", cerr, serr)
	}
	var wg sync.WaitGroup
	var mu sync.Mutex
	var problems []string
	known := 0
	note := func(format string, a ...interface{}) {
		mu.Lock()
		problems = append(problems, fmt.Sprintf(format, a...))
		mu.Unlock()
	}
	guard := func(what string, f func()) {
		defer wg.Done()
		// the teardown unmaps the shared memory; a call that still touches it faults. Turn that fault into a panic of
		// this goroutine (instead of a fatal error of the process) so that the case can be classified and the search goes on.
		debug.SetPanicOnFault(true)
		defer func() {
			if p := recover(); p != nil {
				st := string(debug.Stack())
				// a fault at a non-nil address is a touch of the unmapped shared memory (e.g. reading a zero-copy result)
				if fa, ok := p.(interface{ Addr() uintptr }); ok && fa.Addr() > 1<<16 {
					st += " linkedBuffer(fault on unmapped shared memory)"
				}
				if knownCloseRace(st) {
					mu.Lock()
					known++
					mu.Unlock()
					return
				}
				note("panic in %s: %v\n%s", what, p, trimStack([]byte(st)))
			}
		}()
		f()
	}
	eventDone := make(chan struct{})
	var postErrs, released int64
	var parked sync.WaitGroup
	parked.Add(c.Workers)
	// server side, sync mode: accept loop + echo goroutine per stream
	if !c.CBServer {
		wg.Add(1)
		go guard("server accept loop", func() {
			for {
				st, err := server.AcceptStream()
				if err != nil {
					return
				}
				wg.Add(1)
				go guard("server echo", func() {
					for {
						st.SetReadDeadline(time.Now().Add(e2Stall))
						b, err := st.BufferReader().ReadBytes(c.MsgSize)
						if err != nil {
							if isTimeout(err) {
								note("server read still blocked %v after the session ended", e2Stall)
							}
							return
						}
						cp := append([]byte(nil), b...)
						st.BufferReader().ReleasePreviousRead()
						st.BufferWriter().WriteBytes(cp)
						if err := st.Flush(false); err != nil {
							return
						}
					}
				})
			}
		})
	}
	clientCBs := make([]*deathCB, c.Workers)
	for w := 0; w < c.Workers; w++ {
		w := w
		wg.Add(1)
		go guard("client worker", func() {
			st, err := client.OpenStream()
			if err != nil {
				parked.Done()
				return
			}
			for k := 0; k < c.Rounds; k++ {
				data := keyedBytes(uint32(w+1), k*c.MsgSize, c.MsgSize)
				st.BufferWriter().WriteBytes(data)
				if err := st.Flush(false); err != nil {
					break
				}
				st.SetReadDeadline(time.Now().Add(e2Stall))
				got, err := st.BufferReader().ReadBytes(c.MsgSize)
				if err != nil {
					if isTimeout(err) {
						select {
						case <-eventDone:
							note("client worker %d: read still blocked %v after the session ended", w, e2Stall)
						default:
							note("client worker %d: response to round %d did not arrive within %v (no fault injected yet)", w, k, e2Stall)
						}
					}
					break
				}
				for j := range got {
					if got[j] != data[j] {
						note("client worker %d: response byte %d of round %d differs", w, j, k)
						return
					}
				}
				st.BufferReader().ReleasePreviousRead()
			}
			// traffic is over before the event (a call that is *active* during the teardown is known finding D20);
			// what remains is a reader blocked for good, which the teardown has to release
			parked.Done()
			if c.Park[w%len(c.Park)] {
				st.SetReadDeadline(time.Now().Add(e2Stall))
				_, err := st.BufferReader().ReadBytes(1)
				if err == nil {
					note("client worker %d: a read nobody answered returned data", w)
				} else if isTimeout(err) {
					note("client worker %d: blocked read was not released by the end of the session within %v", w, e2Stall)
				} else {
					atomic.AddInt64(&released, 1)
				}
			}
			// after the session ended every call must fail promptly
			<-eventDone
			// "later calls": once the session has finished tearing itself down (the event loop closes the streams and unmaps)
			waitPoked(4*time.Second, func() bool {
				if !client.IsClosed() {
					return false
				}
				client.shutdownLock.Lock()
				defer client.shutdownLock.Unlock()
				return client.queueManager == nil
			})
			st.BufferWriter().WriteBytes([]byte{1})
			if err := st.Flush(false); err == nil {
				note("client worker %d: Flush succeeded on a stream of a dead session", w)
			} else {
				atomic.AddInt64(&postErrs, 1)
			}
			st.SetReadDeadline(time.Now().Add(2 * time.Second))
			if _, err := st.BufferReader().ReadBytes(1 << 20); err == nil || isTimeout(err) {
				note("client worker %d: ReadBytes on a stream of a dead session returned %v", w, err)
			}
			if _, err := client.OpenStream(); err == nil {
				note("client worker %d: OpenStream succeeded on a dead session", w)
			}
			st.Close()
			_ = clientCBs
		})
	}
	// the event: once every worker is through its rounds and (if so generated) sits in its blocking read
	parked.Wait()
	time.Sleep(300*time.Microsecond + time.Duration(c.AfterUs)*time.Microsecond)
	switch c.Event {
	case "sever-client":
		syscall.Shutdown(client.connFd, syscall.SHUT_RDWR)
	case "sever-server":
		syscall.Shutdown(server.connFd, syscall.SHUT_RDWR)
	default:
		var cw sync.WaitGroup
		for k := 0; k < c.Closers; k++ {
			for _, s := range []*Session{client, server} {
				if (s == client && c.Event == "close-server") || (s == server && c.Event == "close-client") {
					continue
				}
				s := s
				cw.Add(1)
				go func() {
					defer cw.Done()
					if err := s.Close(); err != nil {
						note("Session.Close returned %v", err)
					}
				}()
			}
		}
		cw.Wait()
	}
	close(eventDone)
	if !waitPoked(4*time.Second, func() bool { return client.IsClosed() && server.IsClosed() }) {
		r.Violf("event %s: 4 s later the sessions are not both closed (client closed=%v, server closed=%v)", c.Event, client.IsClosed(), server.IsClosed())
	}
	// idempotent, concurrent Close
	var cw sync.WaitGroup
	for k := 0; k < 2; k++ {
		for _, s := range []*Session{client, server} {
			s := s
			cw.Add(1)
			go func() {
				defer cw.Done()
				if err := s.Close(); err != nil {
					note("repeated Session.Close returned %v", err)
				}
			}()
		}
	}
	cw.Wait()
	finished := make(chan struct{})
	go func() { wg.Wait(); close(finished) }()
	select {
	case <-finished:
	case <-time.After(e2Stall + 10*time.Second):
		if !r.Failed() {
			r.Violf("event %s: workload goroutines are still blocked %v after the session ended", c.Event, e2Stall+10*time.Second)
		}
	}
	mu.Lock()
	if len(problems) > 0 && !r.Failed() {
		r.Violf("event %s after %dus: %s", c.Event, c.AfterUs, strings.Join(problems, "\n"))
	}
	nk := known
	mu.Unlock()
	if nk > 0 {
		r.Count("known_close_races_active_user", nk)
		r.Label("known-finding-close-races-active-user-met")
		// the recovered fault may have happened with a library lock held (recycleMux, pendingData): this process is not used any further
		r.Taint("close-races-active-user", fmt.Sprintf("event %s after %dus: an application goroutine faulted inside a stream call that raced with the teardown of its session", c.Event, c.AfterUs))
	}
	if c.CBServer && !r.Failed() {
		lcb.mu.Lock()
		for _, cb := range lcb.cbs {
			if atomic.LoadInt32(&cb.knownRace) > 0 {
				nk++
				continue
			}
			cb := cb
			// the deferred close of a stream whose OnData was running is finished by its callback goroutine
			waitUntil(2*time.Second, func() bool { return atomic.LoadInt32(&cb.local)+atomic.LoadInt32(&cb.remote) >= 1 })
			if n := atomic.LoadInt32(&cb.local) + atomic.LoadInt32(&cb.remote); n != 1 {
				r.Violf("a callback-mode server stream got %d close callbacks (OnLocalClose %d, OnRemoteClose %d) when its session ended", n, cb.local, cb.remote)
				break
			}
		}
		lcb.mu.Unlock()
	}
	if r.Failed() {
		return
	}
	if _, df := settleCensus(base, 5*time.Second); df != "" {
		if nk > 0 {
			// a goroutine that died in the known race may have left a buffer manager reference behind; not judged
			r.Label("census-skipped-after-known-race")
		} else {
			r.Violf("both sessions closed, workload finished: %s", df)
			return
		}
	}
	r.Label(c.Event)
	if atomic.LoadInt64(&released) > 0 {
		r.Label("blocked-read-released")
	}
	if atomic.LoadInt64(&postErrs) > 0 && (atomic.LoadInt64(&released) > 0 || c.Rounds > 0) {
		r.NonTrivial()
	}
}

func TestVerifC14Death(t *testing.T) {
	runCheck(t, checkDef[deathCase]{name: "TestVerifC14Death", lastCase: true,
		rule: "a real session pair (file or memfd) carries a generated request/response workload (1-5 client goroutines x 0-12 rounds, message size 1..70000, server in reader-goroutine or callback mode); when the traffic is over and a generated subset of the workers sits in a blocking read, the connection is severed with shutdown(2) on either end, or Session.Close is called by 1-3 goroutines on one or both ends; " +
			"oracle: no panic (a crash of the process counts), both sessions closed within 4 s, every blocked call returns and every later Flush/Read/OpenStream fails, one close callback per callback stream, repeated concurrent Close returns nil, descriptors/mappings//dev/shm files back to the baseline census; " +
			"non-trivial = at least one worker reached the post-mortem phase and saw its calls fail; distinct by case hash",
		assumptions: []string{"both ends live in one process here (the child-process part covers real peer death)",
			"known finding close-races-active-user: a panic on an application goroutine inside a read/write call that raced with the teardown of its stream is recovered, counted and not reported again"},
		gen: genDeathCase, run: deathRun})
}
