//go:build verif

package shmipc

// Engine E1 common layer: generated schedules (plain data) and the picker that interprets them.

import (
	"strings"

	"github.com/cloudwego/shmipc-go/vsched"
	"pgregory.net/rapid"
)

// schedPlan is a generated schedule description.
//
//	pct:     initial priorities Prio[i] for thread i (threads beyond the list get Prio[i%len]+... low values), at decision
//	         step Change[k] the running thread's priority drops below all others (PCT, depth = len(Change)+1)
//	preempt: run the current thread until it blocks or finishes, then the lowest enabled id; at step Preempt[k][0] switch
//	         to thread Preempt[k][1] (modulo the enabled set)
//	walk:    at every step stay with the current thread with probability Stay/16, else pick by LCG(Seed)
type schedPlan struct {
	Kind    string   `json:"kind"`
	Prio    []int    `json:"prio,omitempty"`
	Change  []int    `json:"change,omitempty"`
	Preempt [][2]int `json:"preempt,omitempty"`
	Stay    int      `json:"stay,omitempty"`
	Seed    uint64   `json:"seed,omitempty"`
	// Hot: pct change points / preemption steps count only decisions taken right after an "interesting" point
	// (atomic op, connection write, lock, channel op) of the running thread
	Hot bool `json:"hot,omitempty"`
}

func genSchedPlan(t *rapid.T, nthreads, maxStep, maxDepth int) schedPlan {
	return genSchedPlanHot(t, nthreads, maxStep, maxDepth, 0)
}

// genSchedPlanHot: hotStep > 0 enables plans whose change points are counted over "interesting" points only (range 1..hotStep)
func genSchedPlanHot(t *rapid.T, nthreads, maxStep, maxDepth, hotStep int) schedPlan {
	kind := rapid.SampledFrom([]string{"pct", "pct", "pct", "preempt", "preempt", "walk"}).Draw(t, "sched")
	p := schedPlan{Kind: kind}
	if hotStep > 0 && kind != "walk" && rapid.IntRange(0, 2).Draw(t, "hot") != 0 {
		p.Hot = true
		maxStep = hotStep
	}
	switch kind {
	case "pct":
		p.Prio = rapid.Permutation(seqInts(nthreads + 4)).Draw(t, "prio")
		d := rapid.IntRange(1, maxDepth).Draw(t, "depth")
		for i := 0; i < d-1; i++ {
			p.Change = append(p.Change, rapid.IntRange(1, maxStep).Draw(t, "cp"))
		}
	case "preempt":
		n := rapid.IntRange(0, maxDepth).Draw(t, "npre")
		for i := 0; i < n; i++ {
			p.Preempt = append(p.Preempt, [2]int{rapid.IntRange(1, maxStep).Draw(t, "ps"), rapid.IntRange(0, nthreads+2).Draw(t, "pt")})
		}
	case "walk":
		p.Stay = rapid.IntRange(0, 15).Draw(t, "stay")
		p.Seed = rapid.Uint64().Draw(t, "seed")
	}
	return p
}

func seqInts(n int) []int {
	s := make([]int, n)
	for i := range s {
		s[i] = i + 1
	}
	return s
}

// schedObs is what the picker observed; used for non-trivial rules.
type schedObs struct {
	preemptions int // a switch away from a thread that was still enabled
	onSwitch    func(from, to int, preemptive bool)
	onStep      func(cur int) // called at every scheduling decision, before the chosen thread runs
	lastPoint   func(tid int) string
}

func hotPoint(pt string) bool {
	return strings.HasPrefix(pt, "atomic.") || strings.HasPrefix(pt, "memConn") || strings.HasPrefix(pt, "mutex") || strings.HasPrefix(pt, "rw.") || strings.HasPrefix(pt, "chan.") || pt == "gosched"
}

func (p schedPlan) picker(obs *schedObs) vsched.Picker {
	prio := map[int]int{}
	base := func(id int) int {
		if v, ok := prio[id]; ok {
			return v
		}
		v := 1000
		if len(p.Prio) > 0 {
			v = 1000 + p.Prio[id%len(p.Prio)]*16 + id/len(p.Prio)
		}
		prio[id] = v
		return v
	}
	seed := p.Seed
	hotStep := 0
	return func(enabled []int, cur int, step int) int {
		if obs != nil && obs.onStep != nil {
			obs.onStep(cur)
		}
		if p.Hot && obs != nil && obs.lastPoint != nil {
			// renumber: only decisions after a hot point advance the counter; others get step 0 (matches no change point)
			if cur >= 0 && hotPoint(obs.lastPoint(cur)) {
				hotStep++
				step = hotStep
			} else {
				step = 0
			}
		}
		has := func(id int) bool {
			for _, e := range enabled {
				if e == id {
					return true
				}
			}
			return false
		}
		choice := enabled[0]
		switch p.Kind {
		case "pct":
			for i, cp := range p.Change {
				if cp == step && cur >= 0 {
					prio[cur] = i // below every initial priority
				}
			}
			for _, e := range enabled {
				if base(e) > base(choice) {
					choice = e
				}
			}
		case "preempt":
			if cur >= 0 && has(cur) {
				choice = cur
			}
			for _, pe := range p.Preempt {
				if pe[0] == step {
					choice = enabled[pe[1]%len(enabled)]
				}
			}
		default: // walk
			seed = seed*6364136223846793005 + 1442695040888963407
			r := int(seed >> 33)
			if cur >= 0 && has(cur) && r%16 < p.Stay {
				choice = cur
			} else {
				choice = enabled[(r/16)%len(enabled)]
			}
		}
		if obs != nil && cur >= 0 && choice != cur {
			pre := has(cur)
			if pre {
				obs.preemptions++
			}
			if obs.onSwitch != nil {
				obs.onSwitch(cur, choice, pre)
			}
		}
		return choice
	}
}
