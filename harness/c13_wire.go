//go:build verif

package shmipc

// C13 - nothing received on the control connection can crash the process (engine E3, DESIGN.md 5/C13).
// Target 1: an established session fed through the real connEventHandler.onReadReady over a socketpair that is not
// registered with epoll: the harness owns the read chunking and runs posted lambdas itself, under recover.

import (
	"bytes"
	"encoding/binary"
	"encoding/json"
	"fmt"
	"os"
	"path/filepath"
	"sort"
	"sync/atomic"
	"testing"

	syscall "golang.org/x/sys/unix"
	"pgregory.net/rapid"
)

type wireEvt struct {
	Kind    string `json:"k"` // poll | close | fallback | hotrestart | hotrestartack | raw
	ID      uint32 `json:"id,omitempty"`
	Status  uint32 `json:"st,omitempty"`
	N       int    `json:"n,omitempty"` // fallback payload length
	Epoch   uint64 `json:"ep,omitempty"`
	Len     int64  `json:"len,omitempty"`   // -1: keep the correct length field, else override
	Magic   int    `json:"magic,omitempty"` // -1 keep
	Version int    `json:"ver,omitempty"`   // -1 keep
	Type    int    `json:"type,omitempty"`  // -1 keep
	Raw     []byte `json:"raw,omitempty"`
}

type wireQElt struct {
	ID     uint32 `json:"id"`
	Closed bool   `json:"closed,omitempty"`
	N      int    `json:"n,omitempty"`
}

type wireCase struct {
	Server  bool       `json:"server"`
	Queue   []wireQElt `json:"queue,omitempty"`
	Events  []wireEvt  `json:"events"`
	Trunc   int        `json:"trunc"` // -1: deliver everything
	ChunksA []int      `json:"chunks_a,omitempty"`
	ChunksB []int      `json:"chunks_b,omitempty"`
}

func (e wireEvt) mutated() bool { return e.Len >= 0 || e.Magic >= 0 || e.Version >= 0 || e.Type >= 0 }

func (e wireEvt) encode() []byte {
	var b []byte
	switch e.Kind {
	case "poll":
		b = make([]byte, headerSize)
		header(b).encode(headerSize, 3, typePolling)
	case "close":
		b = make([]byte, headerSize+4)
		header(b).encode(headerSize+4, 3, typeStreamClose)
		binary.BigEndian.PutUint32(b[headerSize:], e.ID)
	case "fallback":
		var ev fallbackDataEvent
		ev.encode(len(ev)+e.N, 3, e.ID, e.Status)
		b = append(ev[:], keyedBytes(e.ID, 0, e.N)...)
	case "hotrestart", "hotrestartack":
		b = make([]byte, headerSize+8)
		t := typeHotRestart
		if e.Kind == "hotrestartack" {
			t = typeHotRestartAck
		}
		header(b).encode(headerSize+8, 3, t)
		binary.BigEndian.PutUint64(b[headerSize:], e.Epoch)
	case "raw":
		return append([]byte(nil), e.Raw...)
	}
	if e.Len >= 0 {
		binary.BigEndian.PutUint32(b[0:4], uint32(e.Len))
	}
	if e.Magic >= 0 {
		binary.BigEndian.PutUint16(b[4:6], uint16(e.Magic))
	}
	if e.Version >= 0 {
		b[6] = byte(e.Version)
	}
	if e.Type >= 0 {
		b[7] = byte(e.Type)
	}
	return b
}

func genWireCase(t *rapid.T) wireCase {
	c := wireCase{Server: rapid.Bool().Draw(t, "server"), Trunc: -1}
	ids := []uint32{1, 3, 5, 7, 2, 900}
	idGen := rapid.SampledFrom(ids)
	nq := rapid.IntRange(0, 6).Draw(t, "nq")
	queueIDs := map[uint32]bool{}
	for i := 0; i < nq; i++ {
		q := wireQElt{ID: idGen.Draw(t, "qid")}
		if rapid.IntRange(0, 4).Draw(t, "qclose") == 0 {
			q.Closed = true
		} else {
			q.N = rapid.SampledFrom([]int{1, 5, 64, 65, 130, 300, 700}).Draw(t, "qn")
		}
		queueIDs[q.ID] = true
		c.Queue = append(c.Queue, q)
	}
	mutate := rapid.IntRange(0, 2).Draw(t, "mutate") // 0: fully valid sequence, 1: one mutation, 2: several
	ne := rapid.IntRange(1, 8).Draw(t, "nevents")
	for i := 0; i < ne; i++ {
		e := wireEvt{Len: -1, Magic: -1, Version: -1, Type: -1}
		e.Kind = rapid.SampledFrom([]string{"poll", "poll", "close", "fallback", "fallback", "fallback", "hotrestart", "hotrestartack", "raw"}).Draw(t, "kind")
		if mutate == 0 && (e.Kind == "raw" || e.Kind == "hotrestart" || e.Kind == "hotrestartack") {
			e.Kind = "fallback"
		}
		switch e.Kind {
		case "close":
			e.ID = idGen.Draw(t, "id")
		case "fallback":
			// streams fed through the queue are not also fed through the socket (a real stream switches transport only once, C07 covers that)
			for k := 0; k < 8; k++ {
				e.ID = idGen.Draw(t, "id")
				if !queueIDs[e.ID] {
					break
				}
			}
			if queueIDs[e.ID] {
				e.ID = 11
			}
			e.Status = uint32(rapid.SampledFrom([]int{0, 0, 0, 1}).Draw(t, "st"))
			e.N = rapid.SampledFrom([]int{0, 1, 7, 8, 100, 1000, 5000}).Draw(t, "n")
			if e.Status == 1 {
				e.N = 0
			}
		case "hotrestart", "hotrestartack":
			e.Epoch = rapid.Uint64Range(0, 3).Draw(t, "epoch")
		case "raw":
			e.Raw = rapid.SliceOfN(rapid.Byte(), 1, 24).Draw(t, "raw")
		}
		if e.Kind != "raw" && mutate > 0 && rapid.IntRange(0, 2).Draw(t, "mut") == 0 {
			switch rapid.IntRange(0, 4).Draw(t, "field") {
			case 0:
				e.Len = rapid.SampledFrom([]int64{0, 1, 7, 8, 9, 10, 11, 12, 13, 15, 16, 17, 1 << 31, 1<<32 - 1}).Draw(t, "len")
			case 1:
				e.Magic = rapid.SampledFrom([]int{0, 0x7757, 0x5877, 0xffff}).Draw(t, "magic")
			case 2:
				e.Version = rapid.SampledFrom([]int{0, 1, 2, 4, 255}).Draw(t, "ver")
			case 3:
				e.Type = rapid.SampledFrom([]int{0, 4, 5, 6, 7, 10, 11, 12, 255}).Draw(t, "type")
			case 4:
				e.Status = rapid.SampledFrom([]uint32{2, 3, 0x100, 0xffffffff}).Draw(t, "badst")
			}
		}
		c.Events = append(c.Events, e)
	}
	if mutate > 0 && rapid.IntRange(0, 3).Draw(t, "trunc") == 0 {
		total := 0
		for _, e := range c.Events {
			total += len(e.encode())
		}
		c.Trunc = rapid.IntRange(0, total).Draw(t, "truncat")
	}
	chunkGen := rapid.OneOf(rapid.Just([]int{}), rapid.Just([]int{1}), rapid.SliceOfN(rapid.IntRange(1, 20), 1, 5), rapid.SliceOfN(rapid.SampledFrom([]int{7, 8, 9, 15, 16, 17, 100}), 1, 4))
	c.ChunksA = chunkGen.Draw(t, "chunksA")
	c.ChunksB = chunkGen.Draw(t, "chunksB")
	return c
}

// ---- world: a hand-wired session on a real connEventHandler ----
type wireWorld struct {
	s      *Session
	h      *connEventHandler
	d      *epollDispatcher
	peerFd int
	prodQ  *queue
	bm     *bufferManager
}

func newWireWorld(server bool) *wireWorld {
	mem := make([]byte, 64*1024)
	pairs := []*SizePercentPair{{Size: 64, Percent: 50}, {Size: 256, Percent: 50}}
	hbm, err := createBufferManager(pairs, "wire", mem, 0)
	if err != nil {
		harnessFail("createBufferManager: %v", err)
	}
	sbm, err := mappingBufferManager("wire", mem, 0)
	if err != nil {
		harnessFail("mappingBufferManager: %v", err)
	}
	const qcap = 64
	qmem := make([]byte, countQueueMemSize(qcap)*2)
	half := len(qmem) / 2
	prodQ := createQueueFromBytes(qmem[half:], qcap)
	sqm := &queueManager{sendQueue: createQueueFromBytes(qmem[:half], qcap), recvQueue: mappingQueueFromBytes(qmem[half:]), path: "wireq", mmapMapType: MemMapTypeMemFd, memFd: -1}
	fds, err := syscall.Socketpair(syscall.AF_UNIX, syscall.SOCK_STREAM|syscall.SOCK_CLOEXEC, 0)
	if err != nil {
		harnessFail("socketpair: %v", err)
	}
	if err := syscall.SetNonblock(fds[0], true); err != nil {
		harnessFail("nonblock: %v", err)
	}
	d := newEpollDispatcher()
	d.epollFd = -1
	f := os.NewFile(uintptr(fds[0]), "wire")
	h := &connEventHandler{fd: fds[0], file: f, dispatcher: d, readBuffer: make([]byte, 64*1024), onWriteReadyCh: make(chan struct{}, 1)}
	conf := DefaultConfig()
	conf.LogOutput = nil
	s := &Session{
		config: conf, dispatcher: d, logger: newSessionLogger(!server, nil),
		streams: make(map[uint32]*Stream, 16), sendCh: make(chan sendReady, 4096),
		notifyContinueWriteCh: make(chan struct{}, 1), shutdownCh: make(chan struct{}),
		isClient: !server, communicationVersion: 3, eventConn: h, netConn: simNetConn{},
		bufferManager: sbm, queueManager: sqm, handshakeDone: true, name: "wire",
	}
	if server {
		s.nextStreamID = 2
		s.acceptCh = make(chan *Stream, 1024)
	} else {
		s.nextStreamID = 1
	}
	h.callback = s
	return &wireWorld{s: s, h: h, d: d, peerFd: fds[1], prodQ: prodQ, bm: hbm}
}

type wireOutcome struct {
	ClosedBeforeEOF bool
	Panic           string
	Streams         map[uint32]string // id -> "len:hash:state"
	Accepted        []uint32
	ShutdownErrNil  bool
}

func (o wireOutcome) String() string {
	var ids []int
	for id := range o.Streams {
		ids = append(ids, int(id))
	}
	sort.Ints(ids)
	s := fmt.Sprintf("closed=%v accepted=%v", o.ClosedBeforeEOF, o.Accepted)
	for _, id := range ids {
		s += fmt.Sprintf(" %d{%s}", id, o.Streams[uint32(id)])
	}
	return s
}

func (w *wireWorld) runLambdas() (pan string) {
	defer func() {
		if p := recover(); p != nil {
			pan = fmt.Sprintf("panic in a lambda posted to the event loop: %v\n%s", p, trimStack(stackBytes()))
		}
	}()
	for i := 0; i < 10; i++ {
		w.d.lambdaLock.Lock()
		n := len(w.d.pendingLambda)
		w.d.lambdaLock.Unlock()
		if n == 0 {
			return
		}
		w.d.runLambda()
	}
	return
}

func (w *wireWorld) deliver() (pan string) {
	defer func() {
		if p := recover(); p != nil {
			pan = fmt.Sprintf("panic in the event handler: %v\n%s", p, trimStack(stackBytes()))
		}
	}()
	w.h.onReadReady()
	return
}

// wireExec feeds the bytes with one chunking and returns what happened.
func wireExec(c wireCase, chunks []int) wireOutcome {
	w := newWireWorld(c.Server)
	out := wireOutcome{Streams: map[uint32]string{}}
	// queue content is placed before any byte is delivered: the first polling event drains all of it
	for _, q := range c.Queue {
		if q.Closed {
			w.prodQ.put(queueElement{seqID: q.ID, status: uint32(streamClosed)})
			continue
		}
		lb := newEmptyLinkedBuffer(w.bm)
		lb.WriteBytes(keyedBytes(q.ID, 0, q.N))
		lb.done(false)
		if !lb.isFromShm {
			harnessFail("wire world ran out of shared memory")
		}
		w.prodQ.put(queueElement{seqID: q.ID, offsetInShmBuf: lb.rootBufOffset(), status: uint32(streamOpened)})
	}
	var data []byte
	for _, e := range c.Events {
		data = append(data, e.encode()...)
	}
	if c.Trunc >= 0 && c.Trunc < len(data) {
		data = data[:c.Trunc]
	}
	pos, ci := 0, 0
	for pos < len(data) && out.Panic == "" {
		n := len(data) - pos
		if len(chunks) > 0 {
			k := chunks[ci%len(chunks)]
			ci++
			if k > 0 && k < n {
				n = k
			}
		}
		if n > 32*1024 {
			n = 32 * 1024
		}
		if _, err := syscall.Write(w.peerFd, data[pos:pos+n]); err != nil {
			break // the session closed its end
		}
		pos += n
		if atomic.LoadUint32(&w.h.isClose) == 1 {
			break // removed from epoll in the real loop: no further events are delivered
		}
		if p := w.deliver(); p != "" {
			out.Panic = p
			break
		}
		if p := w.runLambdas(); p != "" {
			out.Panic = p
			break
		}
	}
	out.ClosedBeforeEOF = w.s.IsClosed()
	if out.ClosedBeforeEOF {
		w.s.shutdownLock.Lock()
		out.ShutdownErrNil = w.s.shutdownErr == nil || w.s.shutdownErr == ErrSessionShutdown
		w.s.shutdownLock.Unlock()
	}
	// observe streams before the peer goes away
	if out.Panic == "" && !out.ClosedBeforeEOF {
		w.s.streamLock.Lock()
		for id, st := range w.s.streams {
			st.pendingData.moveTo(st.recvBuf)
			n := st.recvBuf.Len()
			b, _ := st.recvBuf.Peek(n)
			out.Streams[id] = fmt.Sprintf("%d:%s:%d", n, hash64(b), st.getStreamState())
		}
		w.s.streamLock.Unlock()
	}
	if out.Panic == "" {
		if w.s.acceptCh != nil {
			for len(w.s.acceptCh) > 0 {
				st := <-w.s.acceptCh
				out.Accepted = append(out.Accepted, st.id)
			}
		}
	}
	// peer disappears: the survivor must end cleanly too
	syscall.Close(w.peerFd)
	if out.Panic == "" && atomic.LoadUint32(&w.h.isClose) == 0 {
		if p := w.deliver(); p != "" {
			out.Panic = "after the peer closed: " + p
		}
	}
	if out.Panic == "" {
		if p := w.runLambdas(); p != "" {
			out.Panic = "after the peer closed: " + p
		}
	}
	if out.Panic == "" && !w.s.IsClosed() {
		out.Panic = "session still open after the peer closed the connection"
	}
	if atomic.LoadUint32(&w.h.isClose) == 0 {
		w.h.file.Close()
	}
	return out
}

// wireModel is the reference interpreter of the event grammar. ok=false: the sequence contains something whose effect the
// grammar does not define (lenient length fields, odd status values, raw bytes): only crash-freedom and chunking-independence are judged.
func wireModel(c wireCase) (out wireOutcome, ok bool) {
	out = wireOutcome{Streams: map[uint32]string{}}
	type mstream struct {
		data  []byte
		state uint32
	}
	streams := map[uint32]*mstream{}
	get := func(id uint32, open bool) *mstream {
		if s := streams[id]; s != nil {
			return s
		}
		if c.Server && open {
			s := &mstream{}
			streams[id] = s
			out.Accepted = append(out.Accepted, id)
			return s
		}
		return nil
	}
	polled := false
	off := 0
	limit := 1 << 30
	if c.Trunc >= 0 {
		limit = c.Trunc
	}
	for _, e := range c.Events {
		enc := e.encode()
		end := off + len(enc)
		off = end
		if e.Kind == "raw" {
			return out, false
		}
		// definitely invalid headers end the session as soon as the header is complete
		hdrEnd := end - len(enc) + headerSize
		invalid := false
		if e.Magic >= 0 && uint16(e.Magic) != magicNumber {
			invalid = true
		}
		if e.Version == 0 {
			invalid = true
		}
		if e.Type >= 0 {
			switch e.Type {
			case int(typePolling), int(typeStreamClose), int(typeFallbackData), int(typeHotRestart), int(typeHotRestartAck):
				return out, false // retyped event: framing of the rest is undefined by the grammar
			default:
				invalid = true
			}
		}
		if e.Kind == "hotrestart" || e.Kind == "hotrestartack" {
			// a session that belongs to no SessionManager / Listener cannot take part in a hot restart: wrong phase
			if e.Len >= 0 || (e.Version >= 0 && !invalid) {
				return out, false
			}
			if hdrEnd <= limit && !invalid {
				if end > limit {
					break
				}
				invalid = true
			}
		}
		if invalid {
			if hdrEnd <= limit {
				out.ClosedBeforeEOF = true
			}
			break
		}
		if e.Len >= 0 || e.Version >= 0 || (e.Kind == "fallback" && e.Status > 1) {
			return out, false
		}
		if end > limit {
			break // incomplete trailing event: no effect
		}
		// every stream-level event first consumes what the peer had put into the queue before it wrote the event
		// (the queue content of a case is in place before the first byte is delivered)
		if !polled {
			polled = true
			for _, q := range c.Queue {
				if q.Closed {
					if s := streams[q.ID]; s != nil && s.state == uint32(streamOpened) {
						s.state = uint32(streamHalfClosed)
					}
					continue
				}
				if s := get(q.ID, true); s != nil && s.state != uint32(streamClosed) {
					s.data = append(s.data, keyedBytes(q.ID, 0, q.N)...)
				}
			}
		}
		switch e.Kind {
		case "close":
			if s := streams[e.ID]; s != nil && s.state == uint32(streamOpened) {
				s.state = uint32(streamHalfClosed)
			}
		case "fallback":
			if e.Status == uint32(streamClosed) {
				if s := streams[e.ID]; s != nil && s.state == uint32(streamOpened) {
					s.state = uint32(streamHalfClosed)
				}
			} else if s := get(e.ID, true); s != nil {
				s.data = append(s.data, keyedBytes(e.ID, 0, e.N)...)
			}
		}
	}
	if !out.ClosedBeforeEOF { // a closed session has torn down its streams; their content is no longer observable
		for id, s := range streams {
			out.Streams[id] = fmt.Sprintf("%d:%s:%d", len(s.data), hash64(s.data), s.state)
		}
	}
	return out, true
}

func wireRun(c wireCase, r *runCtx) {
	a := wireExec(c, c.ChunksA)
	if a.Panic != "" {
		r.Violf("chunking A %v: %s", c.ChunksA, a.Panic)
		return
	}
	b := wireExec(c, c.ChunksB)
	if b.Panic != "" {
		r.Violf("chunking B %v: %s", c.ChunksB, b.Panic)
		return
	}
	if a.String() != b.String() {
		r.Violf("the same bytes under two read chunkings have different effects:\n  %v -> %s\n  %v -> %s", c.ChunksA, a.String(), c.ChunksB, b.String())
		return
	}
	m, ok := wireModel(c)
	if ok {
		r.Label("modelled")
		if m.String() != a.String() {
			r.Violf("effect differs from the reference interpreter of the event grammar:\n  real:  %s\n  model: %s", a.String(), m.String())
			return
		}
		if a.ClosedBeforeEOF && a.ShutdownErrNil {
			r.Violf("session was ended by an invalid event but reports no error")
			return
		}
		if a.ClosedBeforeEOF {
			r.Label("invalid-event-closed-session")
		} else {
			r.Label("valid-sequence")
		}
	} else {
		r.Label("unmodelled(no-crash+chunking-only)")
	}
	if !bytes.Equal(intsKey(c.ChunksA), intsKey(c.ChunksB)) && (len(m.Streams) > 0 || a.ClosedBeforeEOF) {
		r.NonTrivial()
	}
	// "ends only that session": an untouched pair in the same process still works
	if a.ClosedBeforeEOF {
		if msg := pairRoundTrip(r); msg != "" {
			r.Violf("after a session was ended by bad input, an unrelated session pair failed: %s", msg)
		}
	}
}

func intsKey(a []int) []byte { return []byte(fmt.Sprint(a)) }

func pairRoundTrip(r *runCtx) string {
	p := getPair(defaultPairCfg, r)
	st, err := p.c.OpenStream()
	if err != nil {
		return "OpenStream: " + err.Error()
	}
	defer st.Close()
	st.BufferWriter().WriteString("ping")
	if err := st.Flush(false); err != nil {
		return "Flush: " + err.Error()
	}
	ss := pipeAccept(p, st.StreamID(), r)
	if ss == nil {
		return "server never accepted the stream"
	}
	defer ss.Close()
	ss.SetReadDeadline(timeNowPlus(e2Stall))
	got, err := ss.BufferReader().ReadBytes(4)
	if err != nil || string(got) != "ping" {
		return fmt.Sprintf("read %q, %v", got, err)
	}
	ss.BufferReader().ReleasePreviousRead()
	return ""
}

func TestVerifC13Wire(t *testing.T) {
	runCheck(t, checkDef[wireCase]{name: "TestVerifC13Wire",
		rule: "event sequences from the grammar {polling over a generated queue content, stream-close(id), fallback-data(id,status,payload), hot-restart/ack(epoch), raw bytes} with field mutations (length 0..17/2^31/2^32-1, magic, version 0/1/2/4/255, type 0,4-7,10-12,255, status) and truncation anywhere, " +
			"delivered through the real connEventHandler.onReadReady under two generated read chunkings (whole, byte-by-byte, cuts inside header/payload) to a hand-wired client or server session; " +
			"non-trivial = the two chunkings differ and the sequence had an effect (stream data/close or session end); distinct by case hash",
		assumptions: []string{"queue content and shared-memory buffers referenced by polling events are well formed (they are not bytes of the control connection)",
			"< 1000 new stream ids per session (accept backlog is bounded by design)"},
		gen: genWireCase, run: wireRun})
}

// ---------- native fuzz target (thorough tier): raw bytes, coverage-guided ----------

// wireRawCase is what the fuzzer explores: the bytes of the control connection as they are, a queue content selector and two chunkings.
type wireRawCase struct {
	Server bool   `json:"server"`
	Raw    []byte `json:"raw"`
	Queue  uint8  `json:"queue"` // bit i set: queue element i of a fixed menu is placed before the first byte is delivered
	ChunkA uint8  `json:"chunk_a"`
	ChunkB uint8  `json:"chunk_b"`
}

var wireQueueMenu = []wireQElt{{ID: 1, N: 5}, {ID: 3, N: 130}, {ID: 1, Closed: true}, {ID: 5, N: 700}, {ID: 2, N: 1}, {ID: 3, Closed: true}}

func (c wireRawCase) toCase() wireCase {
	wc := wireCase{Server: c.Server, Trunc: -1, Events: []wireEvt{{Kind: "raw", Raw: c.Raw, Len: -1, Magic: -1, Version: -1, Type: -1}}}
	for i, q := range wireQueueMenu {
		if c.Queue&(1<<uint(i)) != 0 {
			wc.Queue = append(wc.Queue, q)
		}
	}
	chunk := func(b uint8) []int {
		switch {
		case b == 0:
			return nil
		case b < 32:
			return []int{int(b)}
		default:
			return []int{int(b%7) + 1, int(b%13) + 1, int(b % 29)}
		}
	}
	wc.ChunksA, wc.ChunksB = chunk(c.ChunkA), chunk(c.ChunkB)
	return wc
}

func wireRawRun(c wireRawCase, r *runCtx) {
	if len(c.Raw) == 0 {
		return
	}
	wireRun(c.toCase(), r)
}

// TestVerifC13WireRaw replays crashers of the fuzz target (and nothing else: the search itself is FuzzVerifC13Wire).
func TestVerifC13WireRaw(t *testing.T) {
	runCheck(t, checkDef[wireRawCase]{name: "TestVerifC13WireRaw",
		rule: "raw byte strings found by the coverage-guided fuzzer (seeded with valid events of every type and the hostile header constants), same oracles as the structured wire part",
		gen: func(t *rapid.T) wireRawCase {
			return wireRawCase{Server: rapid.Bool().Draw(t, "server"), Raw: rapid.SliceOfN(rapid.Byte(), 1, 64).Draw(t, "raw"),
				Queue: rapid.Uint8().Draw(t, "q"), ChunkA: rapid.Uint8().Draw(t, "a"), ChunkB: rapid.Uint8().Draw(t, "b")}
		}, run: wireRawRun})
}

func FuzzVerifC13Wire(f *testing.F) {
	add := func(server bool, evs []wireEvt, q, a, b uint8) {
		var raw []byte
		for _, e := range evs {
			raw = append(raw, e.encode()...)
		}
		f.Add(server, raw, q, a, b)
	}
	ok := func(k string, id uint32, st uint32, n int) wireEvt {
		return wireEvt{Kind: k, ID: id, Status: st, N: n, Len: -1, Magic: -1, Version: -1, Type: -1}
	}
	add(true, []wireEvt{ok("poll", 0, 0, 0)}, 0x3f, 0, 1)
	add(true, []wireEvt{ok("fallback", 7, 0, 100), ok("close", 7, 0, 0)}, 0, 0, 7)
	add(false, []wireEvt{ok("fallback", 1, 1, 0), ok("poll", 0, 0, 0)}, 3, 8, 9)
	add(true, []wireEvt{ok("hotrestart", 0, 0, 0)}, 0, 0, 0)
	add(false, []wireEvt{ok("hotrestartack", 0, 0, 0)}, 0, 0, 0)
	for _, l := range []int64{0, 7, 8, 9, 15, 16, 17, 1 << 31, 1<<32 - 1} {
		e := ok("fallback", 9, 0, 20)
		e.Len = l
		add(true, []wireEvt{e, ok("poll", 0, 0, 0)}, 1, 0, 3)
	}
	for _, ty := range []int{0, 4, 5, 6, 7, 10, 255} {
		e := ok("poll", 0, 0, 0)
		e.Type = ty
		add(true, []wireEvt{e}, 1, 0, 0)
	}
	f.Fuzz(func(t *testing.T, server bool, raw []byte, q, a, b uint8) {
		if len(raw) == 0 || len(raw) > 8192 {
			return
		}
		c := wireRawCase{Server: server, Raw: raw, Queue: q, ChunkA: a, ChunkB: b}
		r := newRunCtx()
		wireRawRun(c, r)
		if r.viol != "" {
			if vOut != "" {
				cj, _ := json.Marshal(c)
				rec, _ := json.MarshalIndent(violationRec{Test: "TestVerifC13WireRaw", Case: cj, Message: r.viol, Sig: r.sig}, "", " ")
				_ = os.WriteFile(filepath.Join(vOut, fmt.Sprintf("violation-%d.json", vShard)), rec, 0644)
			}
			t.Fatalf("VIOLATION-CASE %s", r.viol)
		}
	})
}
