//go:build verif

package shmipc

// C05 - an enqueued element is never stranded without a wake-up (engine E1 session level, DESIGN.md 5/C05).

import (
	"fmt"
	"strings"
	"testing"

	"github.com/cloudwego/shmipc-go/vsched"
	"pgregory.net/rapid"
)

type wakeCase struct {
	Cfg   simCfg    `json:"cfg"`
	Prods [][]int   `json:"prods"` // per producer (= one client stream): sizes of the messages it flushes
	Echo  bool      `json:"echo"`  // server threads read every message and answer with one byte; producers wait for all answers
	Sched schedPlan `json:"sched"`
}

func genWakeCase(t *rapid.T) wakeCase {
	c := wakeCase{Cfg: defaultSimCfg}
	c.Cfg.QueueCap = rapid.SampledFrom([]uint32{12, 16, 64}).Draw(t, "qcap") // never full here: the queue-full retry path uses real timers (E2 covers it)
	np := rapid.IntRange(1, 3).Draw(t, "nprod")
	for i := 0; i < np; i++ {
		n := rapid.IntRange(1, 3).Draw(t, "nmsg")
		var ms []int
		for j := 0; j < n; j++ {
			ms = append(ms, rapid.SampledFrom([]int{1, 11, 64, 65, 200}).Draw(t, "sz"))
		}
		c.Prods = append(c.Prods, ms)
	}
	c.Echo = rapid.Bool().Draw(t, "echo")
	if rapid.Bool().Draw(t, "chunk") {
		c.Cfg.SChunks = rapid.SliceOfN(rapid.IntRange(1, 9), 1, 4).Draw(t, "schunks")
		c.Cfg.CChunks = rapid.SliceOfN(rapid.IntRange(1, 9), 1, 4).Draw(t, "cchunks")
	}
	c.Sched = genSchedPlanHot(t, 4+2*np, 1500, 3, 150)
	return c
}

func wakeRun(c wakeCase, r *runCtx) {
	w := newSimWorld(c.Cfg)
	obs := &schedObs{}
	var sc *vsched.Sched
	inFlush := map[int]bool{}
	window := false
	obs.onSwitch = func(from, to int, pre bool) {
		// the consumer is pre-empted between its last pop and the end of markNotWorking while a producer is inside Flush
		if !pre || sc == nil {
			return
		}
		pt := sc.LastPoint(from)
		name := sc.ThreadName(from)
		if (name == "sloop" || name == "cloop") && (strings.HasSuffix(pt, ":markNotWorking") || pt == "gosched") {
			for _, f := range inFlush {
				if f {
					window = true
				}
			}
		}
	}
	sc = vsched.New(c.Sched.picker(obs))
	obs.lastPoint = sc.LastPoint
	w.spawnInfra(sc)
	var viol string
	fail := func(format string, a ...interface{}) {
		if viol == "" {
			viol = fmt.Sprintf(format, a...)
		}
	}
	flushed := make([]int, len(c.Prods))
	streams := make([]*Stream, len(c.Prods))
	prodDone := make([]bool, len(c.Prods))
	prodIDs := map[int]int{}
	for pi := range c.Prods {
		p := pi
		st, err := w.client.OpenStream()
		if err != nil {
			harnessFail("OpenStream: %v", err)
		}
		streams[p] = st
		tid := sc.Spawn(fmt.Sprintf("prod%d", p), func() {
			me := vsched.CurrentID()
			for _, n := range c.Prods[p] {
				if _, err := st.BufferWriter().WriteBytes(keyedBytes(st.id, flushed[p], n)); err != nil {
					fail("producer %d: WriteBytes: %v", p, err)
					return
				}
				inFlush[me] = true
				err := st.Flush(false)
				inFlush[me] = false
				if err != nil {
					fail("producer %d: Flush: %v", p, err)
					return
				}
				flushed[p] += n
			}
			if c.Echo {
				for range c.Prods[p] {
					b, err := st.BufferReader().ReadByte()
					if err != nil || b != 0x5a {
						fail("producer %d: reading the answer: %#x, %v", p, b, err)
						return
					}
				}
			}
			prodDone[p] = true
		})
		prodIDs[tid] = p
	}
	if c.Echo {
		sc.Spawn("acceptor", func() {
			for range c.Prods {
				st, err := w.server.AcceptStream()
				if err != nil {
					return
				}
				p := -1
				for i, cs := range streams {
					if cs.id == st.id {
						p = i
					}
				}
				if p < 0 {
					fail("server accepted unknown stream id %d", st.id)
					return
				}
				vsched.Go(func() {
					pos := 0
					for _, n := range c.Prods[p] {
						got, err := st.BufferReader().ReadBytes(n)
						if err != nil {
							fail("server reader of stream %d: %v", st.id, err)
							return
						}
						for j := range got {
							if got[j] != keyed(st.id, pos+j) {
								fail("server reader of stream %d: byte %d differs", st.id, pos+j)
								return
							}
						}
						pos += n
						st.BufferReader().ReleasePreviousRead()
						st.BufferWriter().WriteByte(0x5a)
						if err := st.Flush(false); err != nil {
							fail("server reply flush: %v", err)
							return
						}
					}
				})
			}
		})
	}
	res := sc.Run(400000)
	r.Count("sched_steps", sc.Steps)
	if c.Echo {
		r.Label("echo")
	}
	if res.Err != "" && viol == "" {
		viol = "run did not complete: " + res.Err
	}
	if viol == "" {
		// quiescence: every producer finished, nothing in flight
		if !w.connectionsIdle() {
			harnessFail("quiescent but control connection / lambda queue not drained: %v", res.Blocked)
		}
		for p, done := range prodDone {
			if !done {
				fail("quiescent (no notification in flight, event loops idle) but producer %d never finished; blocked threads: %v; server recvQueue size %d, client recvQueue size %d",
					p, res.Blocked, w.server.queueManager.recvQueue.size(), w.client.queueManager.recvQueue.size())
			}
		}
		if n := w.server.queueManager.recvQueue.size(); n != 0 {
			fail("quiescent but %d element(s) sit in the server's receive queue with no notification in flight (working flag %d)", n, *w.server.queueManager.recvQueue.workingFlag)
		}
		if n := w.client.queueManager.recvQueue.size(); n != 0 {
			fail("quiescent but %d element(s) sit in the client's receive queue with no notification in flight (working flag %d)", n, *w.client.queueManager.recvQueue.workingFlag)
		}
		if !c.Echo && viol == "" {
			for p, cs := range streams {
				ss := w.server.streams[cs.id]
				if ss == nil {
					if flushed[p] > 0 {
						fail("stream %d: %d bytes flushed but the server has no such stream", cs.id, flushed[p])
					}
					continue
				}
				ss.pendingData.moveTo(ss.recvBuf)
				if ss.recvBuf.Len() != flushed[p] {
					fail("stream %d: %d bytes flushed, server stream holds %d", cs.id, flushed[p], ss.recvBuf.Len())
					continue
				}
				got, _ := ss.recvBuf.Peek(flushed[p])
				for j := range got {
					if got[j] != keyed(cs.id, j) {
						fail("stream %d: byte %d held by the server differs", cs.id, j)
						break
					}
				}
			}
		}
	}
	if viol != "" {
		r.Violf("%s\nlast scheduling points: %v", viol, sc.Tail(30))
		return
	}
	if window {
		r.NonTrivial()
		r.Label("consumer-preempted-in-go-idle-window-while-producer-in-flush")
	}
	if w.cc.nWrites+w.sc.nWrites > 0 {
		r.Count("notifications", w.cc.nWrites+w.sc.nWrites)
	}
}

func TestVerifC05Wakeup(t *testing.T) {
	runCheck(t, checkDef[wakeCase]{name: "TestVerifC05Wakeup", replayTries: 5,
		rule: "two hand-wired real Sessions (shared buffer/queue memory, in-memory control connection with generated delivery chunking, lambda queue) under a generated schedule (PCT depth<=3 with change points over atomics/connection writes, preemption lists, random walk): " +
			"1-3 producer threads each flushing 1-3 messages on its own stream, optionally echo threads answering on the server; judged at quiescence (all threads blocked or finished, nothing in flight); " +
			"non-trivial = the consumer's event loop was pre-empted between its last pop and the end of markNotWorking while a producer was inside Flush; distinct by case hash",
		assumptions: []string{"sequentially consistent execution at statement granularity", "the epoll loop and the socket are replaced by an event-loop virtual thread and an in-memory byte pipe with the same serialisation"},
		gen:         genWakeCase, run: wakeRun})
}
