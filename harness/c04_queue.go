//go:build verif

package shmipc

// C04 - the IO queue delivers every element exactly once, intact and in order (engine E1 primitive level, DESIGN.md 5/C04).

import (
	"fmt"
	"testing"

	"github.com/cloudwego/shmipc-go/vsched"
	"pgregory.net/rapid"
)

type queueCase struct {
	Cap       uint32    `json:"cap"`
	Base      int64     `json:"base"`      // initial value of both cursors (index wrap-around)
	Producers []int     `json:"producers"` // number of puts per producer thread
	Pops      int       `json:"pops"`      // pops issued by the consumer thread during the run (may hit an empty queue)
	Sched     schedPlan `json:"sched"`
}

func genQueueCase(t *rapid.T) queueCase {
	c := queueCase{Cap: rapid.SampledFrom([]uint32{1, 1, 2, 2, 3, 4, 8}).Draw(t, "cap")}
	c.Base = rapid.SampledFrom([]int64{0, 0, int64(c.Cap) - 1, 1<<31 - 1, 1<<32 - 1, 1<<32 + 5, 1<<62 + 3}).Draw(t, "base")
	np := rapid.IntRange(1, 3).Draw(t, "nprod")
	for i := 0; i < np; i++ {
		c.Producers = append(c.Producers, rapid.IntRange(1, 6).Draw(t, "nput"))
	}
	c.Pops = rapid.IntRange(0, 14).Draw(t, "npop")
	c.Sched = genSchedPlan(t, np+1, 300, 4)
	return c
}

func qElem(p, s int) queueElement {
	id := uint32(p+1)<<16 | uint32(s+1)
	return queueElement{seqID: id, offsetInShmBuf: ^id, status: id * 2654435761}
}

func qElemOK(e queueElement) bool {
	return e.offsetInShmBuf == ^e.seqID && e.status == e.seqID*2654435761 && e.seqID>>16 >= 1 && e.seqID&0xffff >= 1
}

type qPut struct {
	start, end int
	ok         bool
	sawFull    bool
}

func queueRun(c queueCase, r *runCtx) {
	mem := make([]byte, countQueueMemSize(c.Cap))
	prodQ := createQueueFromBytes(mem, c.Cap)
	consQ := mappingQueueFromBytes(mem)
	*prodQ.head, *prodQ.tail = c.Base, c.Base
	if c.Base != 0 {
		r.Label("nonzero-cursor-base")
	}
	var viol string
	stop := false
	fail := func(format string, a ...interface{}) {
		if viol == "" {
			viol = fmt.Sprintf(format, a...)
		}
		stop = true
	}
	puts := map[uint32]*qPut{}
	inPut := map[int]*qPut{} // thread -> put in progress
	var popped []queueElement
	popStep := map[uint32]int{}
	obs := &schedObs{}
	preemptInPut := false
	var sc *vsched.Sched
	obs.onStep = func(cur int) {
		occ := *prodQ.tail - *prodQ.head
		if occ < 0 || occ > int64(c.Cap) {
			fail("tail-head = %d outside [0,%d] (head %d tail %d)", occ, c.Cap, *prodQ.head, *prodQ.tail)
		}
		if occ == int64(c.Cap) {
			for _, p := range inPut {
				p.sawFull = true
			}
		}
	}
	obs.onSwitch = func(from, to int, pre bool) {
		if pre && inPut[from] != nil {
			preemptInPut = true
		}
	}
	sc = vsched.New(c.Sched.picker(obs))
	for pi, n := range c.Producers {
		p, nput := pi, n
		sc.Spawn(fmt.Sprintf("P%d", p), func() {
			tid := vsched.CurrentID()
			for s := 0; s < nput && !stop; s++ {
				e := qElem(p, s)
				rec := &qPut{start: sc.Steps}
				if *prodQ.tail-*prodQ.head == int64(c.Cap) {
					rec.sawFull = true
				}
				inPut[tid] = rec
				err := prodQ.put(e)
				delete(inPut, tid)
				rec.end = sc.Steps
				if *prodQ.tail-*prodQ.head == int64(c.Cap) {
					// the queue may have become full by our own element only if we succeeded; harmless for the rule below
				}
				rec.ok = err == nil
				if err != nil && err != ErrQueueFull {
					fail("put returned %v", err)
				}
				if err == ErrQueueFull {
					r.Label("put-full")
					if !rec.sawFull {
						fail("producer %d put #%d reported the queue full, but it never held %d elements during that call", p, s, c.Cap)
					}
				}
				puts[e.seqID] = rec
			}
		})
	}
	takeOne := func(q *queue, final bool) bool {
		e, err := q.pop()
		if err != nil {
			if err != errQueueEmpty {
				fail("pop returned %v", err)
			}
			return false
		}
		if !qElemOK(e) {
			fail("popped a torn or invented element %+v", e)
			return true
		}
		if _, dup := popStep[e.seqID]; dup {
			fail("element %#x popped twice", e.seqID)
			return true
		}
		popStep[e.seqID] = len(popped)
		popped = append(popped, e)
		return true
	}
	sc.Spawn("C", func() {
		for i := 0; i < c.Pops && !stop; i++ {
			if !takeOne(consQ, false) {
				r.Label("pop-on-empty")
			}
		}
	})
	res := sc.Run(100000)
	r.Count("sched_steps", sc.Steps)
	if viol == "" && res.Err != "" {
		viol = "run did not complete: " + res.Err
	}
	if viol == "" && !res.Done {
		viol = fmt.Sprintf("threads blocked for ever: %v", res.Blocked)
	}
	if viol == "" {
		// final drain without scheduler
		for takeOne(consQ, true) {
		}
		if consQ.size() != 0 {
			fail("queue reports size %d after a drain", consQ.size())
		}
	}
	if viol == "" {
		// exactly the successfully enqueued elements, once each
		for id, rec := range puts {
			_, got := popStep[id]
			if rec.ok && !got {
				fail("element %#x was enqueued successfully but never came out", id)
			}
			if !rec.ok && got {
				fail("element %#x came out although its put reported the queue full", id)
			}
		}
		for _, e := range popped {
			if puts[e.seqID] == nil {
				fail("element %#x came out but was never put", e.seqID)
			}
		}
	}
	if viol == "" {
		// order: per producer, and for any two puts whose call intervals do not overlap
		last := map[uint32]uint32{}
		for _, e := range popped {
			p, s := e.seqID>>16, e.seqID&0xffff
			if s <= last[p] {
				fail("producer %d: element #%d came out after #%d", p-1, s-1, last[p]-1)
			}
			last[p] = s
		}
		for i, a := range popped {
			for _, b := range popped[i+1:] {
				pa, pb := puts[a.seqID], puts[b.seqID]
				if pa != nil && pb != nil && pb.end < pa.start {
					fail("element %#x was enqueued (steps %d-%d) entirely before %#x (steps %d-%d) but came out after it", b.seqID, pb.start, pb.end, a.seqID, pa.start, pa.end)
				}
			}
		}
	}
	if viol != "" {
		r.Violf("%s\nlast scheduling points: %v", viol, sc.Tail(24))
		return
	}
	if preemptInPut {
		r.Label("preempted-inside-put")
	}
	if preemptInPut || r.labels["put-full"] {
		r.NonTrivial()
	}
}

func TestVerifC04Queue(t *testing.T) {
	runCheck(t, checkDef[queueCase]{name: "TestVerifC04Queue", replayTries: 3,
		rule: "capacity 1-8, initial cursor base (0, cap-1, 2^31-1, 2^32-1, 2^32+5, 2^62+3), 1-3 producer threads x 1-6 puts through the creator view, one consumer thread issuing 0-14 pops through the mapped view, " +
			"generated schedule (PCT depth<=4, preemption list, random walk) with a scheduling point before every statement and atomic of queue.put/pop; " +
			"non-trivial = a producer was pre-empted inside put, or a put reported the queue full; distinct by case hash",
		assumptions: []string{"sequentially consistent execution at statement granularity", "producers of one queue live in one process (they share the queue's mutex), the consumer in the other"},
		gen:         genQueueCase, run: queueRun})
}
