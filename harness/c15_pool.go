//go:build verif

package shmipc

// C15 - the stream pool only hands out clean live streams and never leaks one (engine E2 with SessionManager + Listener).

import (
	"encoding/binary"
	"fmt"
	"os"
	"sync"
	"sync/atomic"
	"testing"
	"time"

	"pgregory.net/rapid"
)

// ---- in-process echo server on the real Listener ----
type echoServer struct {
	mu      sync.Mutex
	streams map[string]*Stream // "sessionName/streamID" -> server stream
	ln      *Listener
	path    string
}

type echoStreamCB struct {
	s  *Stream
	es *echoServer
}

func (e *echoStreamCB) OnData(reader BufferReader) {
	n := reader.Len()
	if n == 0 {
		return
	}
	data, err := reader.ReadBytes(n)
	if err != nil {
		return
	}
	cp := append([]byte(nil), data...)
	reader.ReleasePreviousRead()
	e.s.BufferWriter().WriteBytes(cp)
	e.s.Flush(false)
}
func (e *echoStreamCB) OnLocalClose()  {}
func (e *echoStreamCB) OnRemoteClose() { e.s.Close() }

func (es *echoServer) OnNewStream(s *Stream) {
	es.mu.Lock()
	es.streams[fmt.Sprintf("%s/%d", s.session.sessionName(), s.id)] = s
	es.mu.Unlock()
	s.SetCallbacks(&echoStreamCB{s: s, es: es})
}
func (es *echoServer) OnShutdown(reason string) {}

func newEchoServer() *echoServer {
	es := &echoServer{streams: map[string]*Stream{}, path: "/tmp/" + uniqueName("es") + ".sock"}
	conf := NewDefaultListenerConfig(es.path, "unix")
	conf.Config.LogOutput = nil
	// (with the default of 1 s a loaded machine makes the server give up a handshake which its goroutine then completes anyway:
	//  the client believes in a session the server has dropped - that is C12's subject, not this check's)
	conf.Config.InitializeTimeout = 20 * time.Second
	ln, err := NewListener(es, conf)
	if err != nil {
		harnessFail("NewListener: %v", err)
	}
	es.ln = ln
	go ln.Run()
	return es
}

func (es *echoServer) close() {
	es.ln.Close()
	os.Remove(es.path)
}

func (es *echoServer) lookup(cs *Stream) *Stream {
	es.mu.Lock()
	defer es.mu.Unlock()
	return es.streams[fmt.Sprintf("%s/%d", cs.session.sessionName(), cs.id)]
}

func smConfigFor(es *echoServer, sessions, poolCap int, memfd bool) *SessionManagerConfig {
	c := DefaultSessionManagerConfig()
	base := defaultPairCfg
	base.MemFd = memfd
	c.Config = base.config()
	c.Network, c.Address = "unix", es.path
	c.SessionNum = sessions
	c.MaxStreamNum = poolCap
	return c
}

type poolOp struct {
	K    string `json:"k"` // get | use | put | close | sclose | hog | unhog
	H    int    `json:"h,omitempty"`    // handle selector (index into the held list, modulo)
	N    int    `json:"n,omitempty"`    // request payload size
	Read string `json:"read,omitempty"` // all | part | none
	Keep []int  `json:"keep,omitempty"`
}

type poolCase struct {
	Sessions int      `json:"sessions"`
	PoolCap  int      `json:"pool_cap"`
	MemFd    bool     `json:"memfd"`
	Ops      []poolOp `json:"ops"`
}

func genPoolCase(t *rapid.T) poolCase {
	c := poolCase{Sessions: rapid.IntRange(1, 2).Draw(t, "sessions"), PoolCap: rapid.IntRange(1, 4).Draw(t, "cap"), MemFd: rapid.Bool().Draw(t, "memfd")}
	n := rapid.IntRange(3, 40).Draw(t, "nops")
	for len(c.Ops) < n {
		op := poolOp{K: rapid.SampledFrom([]string{"get", "get", "get", "use", "use", "use", "put", "put", "put", "close", "sclose", "sclose-pooled", "hog", "unhog"}).Draw(t, "k"),
			H: rapid.IntRange(0, 7).Draw(t, "h")}
		switch op.K {
		case "use":
			op.N = rapid.SampledFrom([]int{0, 1, 50, 56, 57, 300, 1100, 70000}).Draw(t, "n")
			op.Read = rapid.SampledFrom([]string{"all", "all", "all", "part", "none", "untouched"}).Draw(t, "read")
		case "hog":
			op.Keep = []int{rapid.IntRange(0, 2).Draw(t, "k0"), rapid.IntRange(0, 2).Draw(t, "k1"), rapid.IntRange(0, 2).Draw(t, "k2"), rapid.IntRange(0, 2).Draw(t, "k3")}
		}
		c.Ops = append(c.Ops, op)
	}
	return c
}

type heldStream struct {
	st      *Stream
	dirty   bool // unread response bytes are known to be present locally
	lastReq uint64
}

func poolRun(c poolCase, r *runCtx) {
	es := newEchoServer()
	defer es.close()
	sm, err := NewSessionManager(smConfigFor(es, c.Sessions, c.PoolCap, c.MemFd))
	if err != nil {
		harnessFail("NewSessionManager: %v", err)
	}
	defer sm.Close()
	var held []*heldStream
	everSeen := map[*Stream]bool{}
	pooled := map[*Stream]bool{} // put back and (as far as the harness knows) kept by the pool
	var hog []*bufferSlice
	nonce := uint64(vPid)<<32 | uint64(vCaseSeq)<<16
	unhog := func() {
		for _, b := range hog {
			sm.pools[0].Session().bufferManager.recycleBuffer(b)
		}
		hog = nil
	}
	defer unhog()
	for oi, op := range c.Ops {
		switch op.K {
		case "get":
			if len(held) >= 8 {
				continue
			}
			st, err := sm.GetStream()
			if err != nil {
				r.Violf("op %d: GetStream failed on a healthy manager: %v", oi, err)
				return
			}
			for _, h := range held {
				if h.st == st {
					r.Violf("op %d: GetStream handed out stream %d which another caller still holds", oi, st.id)
					return
				}
			}
			if !st.IsOpen() {
				r.Violf("op %d: GetStream returned a stream that is not open (state %d)", oi, st.getStreamState())
				return
			}
			if st.Session().IsClosed() {
				r.Violf("op %d: GetStream returned a stream of a closed session", oi)
				return
			}
			if everSeen[st] {
				r.Label("reused-stream")
				if !pooled[st] {
					r.Violf("op %d: GetStream returned stream %d which was closed (not pooled) earlier", oi, st.id)
					return
				}
				// a reused stream must carry nothing from its earlier use
				st.pendingData.moveTo(st.recvBuf)
				if n := st.recvBuf.Len(); n != 0 {
					r.Violf("op %d: reused stream %d still carries %d unread bytes from an earlier use", oi, st.id, n)
					return
				}
			}
			everSeen[st] = true
			delete(pooled, st)
			held = append(held, &heldStream{st: st})
		case "use":
			if len(held) == 0 {
				continue
			}
			h := held[op.H%len(held)]
			if h.dirty || !h.st.IsOpen() {
				continue // the application would not start a new request on a stream with an unread response / closed by the server
			}
			nonce++
			req := make([]byte, 8+op.N)
			binary.BigEndian.PutUint64(req, nonce)
			copy(req[8:], keyedBytes(uint32(nonce), 0, op.N))
			if _, err := h.st.BufferWriter().WriteBytes(req); err != nil {
				r.Violf("op %d: WriteBytes: %v", oi, err)
				return
			}
			if err := h.st.Flush(false); err != nil {
				r.Violf("op %d: Flush of a request on an open pooled stream failed: %v", oi, err)
				return
			}
			h.lastReq = nonce
			if op.Read == "untouched" {
				// the caller never touches the reader: the response has arrived (it sits in the stream's pending list) and stays unread
				st := h.st
				if !waitUntil(e2Stall, func() bool {
					st.pendingData.Lock()
					defer st.pendingData.Unlock()
					return len(st.pendingData.unread) > 0 || !st.IsOpen()
				}) {
					r.Violf("op %d: response of %d bytes did not arrive within %v", oi, len(req), e2Stall)
					return
				}
				h.dirty = true
				r.Label("response-left-untouched")
				continue
			}
			h.st.SetReadDeadline(time.Now().Add(e2Stall))
			// the whole response is awaited first (so that whatever stays unread is unread *locally*), then consumed as generated
			all, err := h.st.BufferReader().Peek(len(req))
			if err != nil {
				if !h.st.IsOpen() {
					continue // the server closed the stream meanwhile (sclose of a held stream)
				}
				diag := ""
				cs := h.st.session
				if ss := es.lookup(h.st); ss != nil {
					ss.pendingData.Lock()
					np := len(ss.pendingData.unread)
					ss.pendingData.Unlock()
					diag = fmt.Sprintf("server stream: state %d cbInProcess %d pending %d recvLen %d fallback %v; server session: closed %v recvQ %d flag %d sendQ %d; ",
						ss.getStreamState(), atomic.LoadUint32(&ss.callbackInProcess), np, ss.recvBuf.len, ss.inFallbackState,
						ss.session.IsClosed(), ss.session.queueManager.recvQueue.size(), atomic.LoadUint32(ss.session.queueManager.recvQueue.workingFlag), ss.session.queueManager.sendQueue.size())
				} else {
					diag = "server never saw the stream; "
				}
				diag += fmt.Sprintf("client stream %d state %d fallback %v; client session closed %v recvQ %d flag %d sendQ %d sendFlag %d stats %+v",
					h.st.id, h.st.getStreamState(), h.st.inFallbackState, cs.IsClosed(), cs.queueManager.recvQueue.size(), atomic.LoadUint32(cs.queueManager.recvQueue.workingFlag),
					cs.queueManager.sendQueue.size(), atomic.LoadUint32(cs.queueManager.sendQueue.workingFlag), cs.stats)
				r.Violf("op %d: response of %d bytes did not arrive: %v\n%s", oi, len(req), err, diag)
				return
			}
			if got := binary.BigEndian.Uint64(all[:8]); got != nonce {
				r.Violf("op %d: first bytes read after request %x carry nonce %x: bytes of an earlier use were delivered", oi, nonce, got)
				return
			}
			for j := range all {
				if all[j] != req[j] {
					r.Violf("op %d: response byte %d differs from the request", oi, j)
					return
				}
			}
			switch op.Read {
			case "all":
				h.st.BufferReader().ReadBytes(len(req))
			case "part":
				h.st.BufferReader().ReadBytes(len(req) / 2)
				h.dirty = len(req)-len(req)/2 > 0
			case "none":
				h.dirty = true
			}
			if h.st.inFallbackState {
				r.Label("fallback-stream")
			}
		case "put":
			if len(held) == 0 {
				continue
			}
			i := op.H % len(held)
			h := held[i]
			held = append(held[:i:i], held[i+1:]...)
			wasOpen := h.st.IsOpen()
			fb := h.st.inFallbackState
			sm.PutBack(h.st)
			if h.st.IsOpen() {
				if h.dirty {
					r.Violf("op %d: PutBack kept stream %d although %s", oi, h.st.id, "it has unread response bytes")
					return
				}
				if fb {
					r.Violf("op %d: PutBack kept stream %d although it is in fallback state", oi, h.st.id)
					return
				}
				pooled[h.st] = true
				r.Label("put-kept")
			} else {
				r.Label("put-closed")
				_ = wasOpen
			}
		case "close":
			if len(held) == 0 {
				continue
			}
			i := op.H % len(held)
			h := held[i]
			held = append(held[:i:i], held[i+1:]...)
			h.st.Close()
		case "sclose", "sclose-pooled":
			// the server closes its end of a stream: one held by a caller, or one idle in the pool
			var target *Stream
			if op.K == "sclose" && len(held) > 0 {
				target = held[op.H%len(held)].st
			} else {
				k := 0
				for st := range pooled {
					if st.IsOpen() && (target == nil || k == op.H%len(pooled)) {
						target = st
					}
					k++
				}
				if target != nil {
					r.Label("server-closed-idle-pooled-stream")
				}
			}
			if target == nil {
				continue
			}
			if ss := es.lookup(target); ss != nil {
				ss.Close()
				cs := target
				waitUntil(2*time.Second, func() bool { return !cs.IsOpen() })
			}
		case "hog":
			bm := sm.pools[0].Session().bufferManager
			for i, l := range bm.lists {
				for l.remain() > op.Keep[i%len(op.Keep)] {
					b, err := l.pop()
					if err != nil {
						break
					}
					hog = append(hog, b)
				}
			}
			r.Label("pressure")
		case "unhog":
			unhog()
		}
	}
	// ---- final phase: callers close what they hold, pools are drained, nothing may stay active ----
	unhog()
	for _, h := range held {
		h.st.Close()
	}
	held = nil
	for _, p := range sm.pools {
		for k := 0; k < c.PoolCap+1; k++ {
			st, err := p.getOrOpenStream()
			if err != nil {
				r.Violf("draining the pool: %v", err)
				return
			}
			st.Close()
		}
	}
	for pi, p := range sm.pools {
		s := p.Session()
		if s.IsClosed() {
			continue
		}
		if !waitUntil(2*time.Second, func() bool { return s.GetActiveStreamCount() == 0 }) {
			s.streamLock.Lock()
			var ids []string
			for id, st := range s.streams {
				ids = append(ids, fmt.Sprintf("%d(state %d)", id, st.getStreamState()))
			}
			s.streamLock.Unlock()
			r.Violf("every caller closed its streams and pool %d was drained, but its session still counts %d active stream(s): %v", pi, len(ids), ids)
			return
		}
		ok := waitUntil(3*time.Second, func() bool {
			for _, l := range s.bufferManager.lists {
				if uint32(*l.size) != *l.cap {
					return false
				}
			}
			return true
		})
		if !ok {
			_, _, smm := s.GetMetrics()
			r.Violf("every caller closed its streams and pool %d was drained, but %d bytes of shared memory are still allocated", pi, smm.AllInUsedShareMemoryInBytes)
			return
		}
	}
	if r.labels["reused-stream"] || r.labels["put-closed"] {
		r.NonTrivial()
	}
}

func TestVerifC15Pool(t *testing.T) {
	runCheck(t, checkDef[poolCase]{name: "TestVerifC15Pool",
		rule: "histories of 3-40 ops against a real SessionManager (1-2 sessions, pool capacity 1-4) talking to an in-process echo Listener: GetStream, request/response with a unique nonce (response read completely / partly / not at all), PutBack, Close, server-side close of held or idle pooled streams, hog/unhog pressure (fallback streams); " +
			"oracle: every stream from GetStream is open, of a live session, held by nobody else, carries no bytes of an earlier use (first bytes after a request carry its nonce); PutBack keeps only clean streams; after callers closed everything and the pools were drained no stream is active and no shared memory is allocated; " +
			"non-trivial = a stream was reused from the pool, or PutBack had to close one; distinct by case hash",
		assumptions: []string{"a caller gives a stream back only after the response to its last request has arrived (read or not): a response still in flight at PutBack would be the caller's own stale data",
			"single caller goroutine issuing the history (the pool's own locking is not the subject here)"},
		gen: genPoolCase, run: poolRun})
}
