//go:build verif

package shmipc

// C16 - hot restart moves every session to the new server without a stuck state.
// C17 - the session manager heals lost sessions and only those.
// Engine E2: real SessionManager against in-process Listeners (echo servers) on one unix path.

import (
	"io"
	"sort"
	"encoding/binary"
	"fmt"
	"os"
	"runtime"
	"strings"
	"sync"
	"sync/atomic"
	"testing"
	"time"

	"pgregory.net/rapid"
)

// gateLog is a LogOutput which, once armed, holds up every handshake of the sessions that log to it for d: it blocks at the line
// that opens the handshake (the configuration's LogOutput is the only delay hook the library offers; needs log level info)
type gateLog struct {
	armed int32
	held  int32
	d     time.Duration
}

func (g *gateLog) Write(b []byte) (int, error) {
	if atomic.LoadInt32(&g.armed) == 1 && strings.Contains(string(b), "starting initializes") {
		atomic.AddInt32(&g.held, 1)
		time.Sleep(g.d)
	}
	return len(b), nil
}

func newEchoServerAt(path string, unlinkOnClose bool) *echoServer {
	return newEchoServerAtLog(path, unlinkOnClose, nil)
}

func newEchoServerAtLog(path string, unlinkOnClose bool, out io.Writer) *echoServer {
	es := &echoServer{streams: map[string]*Stream{}, path: path}
	conf := NewDefaultListenerConfig(path, "unix")
	conf.Config.LogOutput = out
	conf.Config.InitializeTimeout = 20 * time.Second
	ln, err := NewListener(es, conf)
	if err != nil {
		harnessFail("NewListener: %v", err)
	}
	ln.SetUnlinkOnClose(unlinkOnClose)
	es.ln = ln
	go ln.Run()
	return es
}

func (es *echoServer) sessionCount() (open, total int) {
	es.ln.sessions.sessionMu.Lock()
	defer es.ln.sessions.sessionMu.Unlock()
	for s := range es.ln.sessions.data {
		total++
		if !s.IsClosed() {
			open++
		}
	}
	return
}

type roundTrip struct {
	start, end time.Time
	err        string
}

// trafficWorker does GetStream / request / response / PutBack round trips until stop is closed.
func trafficWorker(sm *SessionManager, id int, stop chan struct{}, out *[]roundTrip, mu *sync.Mutex, wg *sync.WaitGroup) {
	defer wg.Done()
	nonce := uint64(id) << 48
	for {
		select {
		case <-stop:
			return
		default:
		}
		rt := roundTrip{start: time.Now()}
		func() {
			defer func() {
				if p := recover(); p != nil {
					rt.err = fmt.Sprintf("panic: %v", p)
				}
			}()
			st, err := sm.GetStream()
			if err != nil {
				rt.err = "GetStream: " + err.Error()
				return
			}
			nonce++
			req := make([]byte, 24)
			binary.BigEndian.PutUint64(req, nonce)
			st.BufferWriter().WriteBytes(req)
			if err := st.Flush(false); err != nil {
				rt.err = "Flush: " + err.Error()
				st.Close()
				return
			}
			st.SetReadDeadline(time.Now().Add(3 * time.Second))
			got, err := st.BufferReader().ReadBytes(len(req))
			if err != nil {
				rt.err = "Read: " + err.Error()
				st.Close()
				return
			}
			if binary.BigEndian.Uint64(got) != nonce {
				rt.err = "response carries another request's nonce"
			}
			st.BufferReader().ReleasePreviousRead()
			sm.PutBack(st)
		}()
		rt.end = time.Now()
		mu.Lock()
		*out = append(*out, rt)
		mu.Unlock()
		time.Sleep(300 * time.Microsecond)
	}
}

type hrCase struct {
	Sessions int    `json:"sessions"`
	MemFd    bool   `json:"memfd"`
	DeltaMs  int    `json:"delta_ms"` // the new listener starts this long after HotRestart is called (negative: before)
	Epoch    uint64 `json:"epoch"`
	Fault    string `json:"fault"` // none | no-new-server | second-call | stale-event | kill-one-session
	Workers  int    `json:"workers"`
	Chain    bool   `json:"chain,omitempty"` // after a complete hand-over, the new server hands over once more (A -> B -> C)
}

func genHrCase(t *rapid.T) hrCase {
	c := hrCase{Sessions: rapid.IntRange(1, 4).Draw(t, "sessions"), MemFd: rapid.Bool().Draw(t, "memfd"),
		Epoch: rapid.Uint64Range(1, 1<<40).Draw(t, "epoch"), Workers: rapid.IntRange(1, 2).Draw(t, "workers")}
	c.Fault = rapid.SampledFrom([]string{"none", "none", "none", "no-new-server", "second-call", "stale-event", "kill-one-session", "partial-announcement"}).Draw(t, "fault")
	if c.Fault == "partial-announcement" && c.Sessions < 2 {
		c.Sessions = 2
	}
	c.DeltaMs = rapid.SampledFrom([]int{-300, -50, -5, -1}).Draw(t, "delta")
	if c.Fault == "no-new-server" {
		c.DeltaMs = 100000
	}
	c.Chain = rapid.IntRange(0, 2).Draw(t, "chain") == 0
	return c
}

func hrRun(c hrCase, r *runCtx) {
	path := "/tmp/" + uniqueName("hr") + ".sock"
	defer os.Remove(path)
	old := newEchoServerAt(path, false)
	oldClosed := false
	defer func() {
		if !oldClosed {
			old.ln.Close()
		}
	}()
	smc := smConfigFor(old, c.Sessions, 8, c.MemFd)
	if c.Fault == "partial-announcement" {
		smc.Config.rebuildInterval = 300 * time.Millisecond // (default: 60 s) the pool left behind is re-established by the healing of C17
	}
	sm, err := NewSessionManager(smc)
	if err != nil {
		harnessFail("NewSessionManager: %v", err)
	}
	defer closeSM(sm)
	var trips []roundTrip
	var mu sync.Mutex
	var wg sync.WaitGroup
	stop := make(chan struct{})
	for w := 0; w < c.Workers; w++ {
		wg.Add(1)
		go trafficWorker(sm, w+1, stop, &trips, &mu, &wg)
	}
	stopTraffic := func() {
		select {
		case <-stop:
		default:
			close(stop)
		}
		wg.Wait()
	}
	defer stopTraffic()
	// the restart concerns the sessions the old server knows about: wait until it has registered all of them
	if !waitUntil(5*time.Second, func() bool { open, _ := old.sessionCount(); return open == c.Sessions }) {
		harnessFail("old server never registered the %d sessions", c.Sessions)
	}
	time.Sleep(2 * time.Millisecond)
	var newer *echoServer
	defer func() {
		if newer != nil {
			newer.ln.Close()
		}
	}()
	if c.DeltaMs < 0 {
		newer = newEchoServerAt(path, false)
		time.Sleep(time.Duration(-c.DeltaMs) * time.Millisecond)
	}
	if c.Fault == "kill-one-session" {
		// one client session dies just before the restart is announced
		sm.pools[0].Session().Close()
	}
	tHR := time.Now()
	staleTookOver := false
	if c.Fault == "partial-announcement" {
		// the restart event of one session is lost (delayed for ever): what Listener.HotRestart does, by hand, without sending
		// the event to the session with the highest descriptor. The listener waits for an acknowledgement that cannot come and
		// leaves through its time-out, the manager moves the pools it heard about and leaves through its own.
		ln := old.ln
		ln.mu.Lock()
		ln.state = hotRestartState
		ln.epoch = c.Epoch
		ln.sessions.sessionMu.Lock()
		var ss []*Session
		for sess := range ln.sessions.data {
			ss = append(ss, sess)
		}
		sort.Slice(ss, func(i, j int) bool { return ss[i].connFd < ss[j].connFd })
		for i, sess := range ss {
			if i < len(ss)-1 {
				if err := sess.hotRestart(c.Epoch, typeHotRestart); err != nil {
					harnessFail("hotRestart event: %v", err)
				}
			}
			sess.state = hotRestartState
			ln.hotRestartAckCount++
		}
		ln.sessions.sessionMu.Unlock()
		ln.mu.Unlock()
		go ln.checkHotRestart()
	} else if err := old.ln.HotRestart(c.Epoch); err != nil {
		if c.Fault == "kill-one-session" {
			r.Label("hotrestart-refused:" + err.Error())
		} else {
			r.Violf("HotRestart(%d) on an idle listener returned %v", c.Epoch, err)
			return
		}
	}
	switch c.Fault {
	case "second-call":
		if err := old.ln.HotRestart(c.Epoch + 1); err != ErrHotRestartInProgress {
			// allowed only if the first one is already through
			if !old.ln.IsHotRestartDone() {
				r.Violf("a second HotRestart call during a restart returned %v", err)
				return
			}
		}
	case "stale-event":
		// an event of a foreign epoch arrives at a client session during the restart: it must change nothing
		// (only once the genuine restart is under way on the client; if it is already over there is nothing to disturb)
		started := waitUntil(500*time.Millisecond, func() bool {
			sm.RLock()
			defer sm.RUnlock()
			return sm.state == hotRestartState && sm.epoch == c.Epoch
		})
		if !started {
			r.Label("stale-event-not-injected(restart-already-over)")
			break
		}
		before := fmt.Sprint(poolEpochs(sm))
		sm.handleEvent(typeHotRestart, &sessionManagerHotRestartParams{epoch: c.Epoch + 7, session: sm.pools[0].Session()})
		sm.RLock()
		st := sm.state
		sm.RUnlock()
		_ = st
		sm.RLock()
		curEpoch := sm.epoch
		sm.RUnlock()
		if curEpoch == c.Epoch+7 {
			// the genuine restart had just completed when the event was handled: it legitimately started a restart of its own
			r.Label("stale-event-arrived-after-completion")
			staleTookOver = true
			break
		}
		for _, e := range poolEpochs(sm) {
			if e == c.Epoch+7 {
				r.Violf("an event of foreign epoch %d during the restart of epoch %d moved a pool: %s -> %v", c.Epoch+7, c.Epoch, before, poolEpochs(sm))
				return
			}
		}
	}
	// both sides leave the hot-restart state in bounded time (2 s time-out in the code + slack)
	var tSwitched time.Time // when the last pool was seen on a session of the announced epoch
	if !waitUntil(2*time.Second+1500*time.Millisecond, func() bool {
		if tSwitched.IsZero() {
			all := true
			for _, e := range poolEpochs(sm) {
				if e != c.Epoch {
					all = false
				}
			}
			if all {
				tSwitched = time.Now()
			}
		}
		sm.RLock()
		st := sm.state
		sm.RUnlock()
		return old.ln.IsHotRestartDone() && st != hotRestartState
	}) {
		sm.RLock()
		st := sm.state
		sm.RUnlock()
		r.Violf("%.1fs after HotRestart(%d): listener done=%v, session manager state=%d (1 = still in hot restart); fault %s", time.Since(tHR).Seconds(), c.Epoch, old.ln.IsHotRestartDone(), st, c.Fault)
		return
	}
	tDone := time.Now()
	faultFree := (c.Fault == "none" || c.Fault == "second-call" || c.Fault == "stale-event") && !staleTookOver
	if faultFree && c.DeltaMs < 0 {
		// a complete hand-over is acknowledged by every session: the listener ends in the "done" state, not in the reset of its time-out
		old.ln.mu.Lock()
		lst := old.ln.state
		old.ln.mu.Unlock()
		if lst != hotRestartDoneState {
			// the code gives the hand-over 2 s; on a loaded machine it can legitimately run out of time. It is only wrong if
			// every pool had switched (and therefore acknowledged) well before that.
			if !tSwitched.IsZero() && tSwitched.Sub(tHR) < 1200*time.Millisecond {
				r.Violf("every client session had moved to the new server %.0f ms after the announcement, but the old listener left the restart through its 2 s time-out (state %d), not through the acknowledgements", tSwitched.Sub(tHR).Seconds()*1000, lst)
				return
			}
			r.Label("handover-ran-into-the-2s-timeout(load)")
			faultFree = false
		}
		for i, e := range poolEpochs(sm) {
			if e != c.Epoch {
				r.Violf("after the restart pool %d is on a session of epoch %d, announced epoch %d", i, e, c.Epoch)
				return
			}
		}
		// (the server registers a session a moment after the client's handshake returned)
		waitUntil(2*time.Second, func() bool { open, _ := newer.sessionCount(); return open == c.Sessions })
		if open, _ := newer.sessionCount(); open != c.Sessions {
			r.Violf("after the restart the new server holds %d open sessions, the client has %d pools", open, c.Sessions)
			return
		}
	}
	// the old server lets go
	tClose := time.Now()
	old.ln.Close()
	oldClosed = true
	if c.Chain && faultFree && c.DeltaMs < 0 {
		// second hand-over: B -> C, with a new epoch
		r.Label("chained-restart")
		time.Sleep(20 * time.Millisecond)
		third := newEchoServerAt(path, false)
		defer third.ln.Close()
		time.Sleep(5 * time.Millisecond)
		epoch2 := c.Epoch + 1000
		t2 := time.Now()
		if err := newer.ln.HotRestart(epoch2); err != nil {
			r.Violf("second hand-over: HotRestart(%d) on the server that took over returned %v", epoch2, err)
			return
		}
		if !waitUntil(2*time.Second+1500*time.Millisecond, func() bool {
			sm.RLock()
			st := sm.state
			sm.RUnlock()
			return newer.ln.IsHotRestartDone() && st != hotRestartState
		}) {
			r.Violf("second hand-over (epoch %d): listener done=%v, the session manager is still in the hot-restart state after 3.5 s", epoch2, newer.ln.IsHotRestartDone())
			return
		}
		newer.ln.mu.Lock()
		lst := newer.ln.state
		newer.ln.mu.Unlock()
		allSwitched := true
		for _, e := range poolEpochs(sm) {
			if e != epoch2 {
				allSwitched = false
			}
		}
		if lst != hotRestartDoneState && allSwitched && time.Since(t2) > 1800*time.Millisecond {
			// ran into the 2 s time-out although every pool switched in the end: machine load, not judged
			r.Label("handover-ran-into-the-2s-timeout(load)")
			newer.ln.Close()
			newer = nil
			stopTraffic()
			return
		}
		if lst != hotRestartDoneState {
			r.Violf("second hand-over (epoch %d): the listener left the restart through its time-out (state %d), the client sessions never acknowledged", epoch2, lst)
			return
		}
		for i, e := range poolEpochs(sm) {
			if e != epoch2 {
				r.Violf("second hand-over: pool %d is on a session of epoch %d, announced epoch %d", i, e, epoch2)
				return
			}
		}
		waitUntil(2*time.Second, func() bool { open, _ := third.sessionCount(); return open == c.Sessions })
		if open, _ := third.sessionCount(); open != c.Sessions {
			r.Violf("second hand-over: the third server holds %d open sessions, the client has %d pools", open, c.Sessions)
			return
		}
		newer.ln.Close()
		newer = nil
	}
	if c.Fault == "partial-announcement" && newer != nil {
		// the pool whose event was lost stayed on the old server; now that it is gone the pool must be re-established on the new one
		ok := waitUntil(12*time.Second, func() bool {
			sm.RLock()
			for _, p := range sm.pools {
				if p.Session().IsClosed() {
					sm.RUnlock()
					return false
				}
			}
			sm.RUnlock()
			open, _ := newer.sessionCount()
			return open == c.Sessions
		})
		if !ok {
			open, _ := newer.sessionCount()
			var closed []int
			sm.RLock()
			for i, p := range sm.pools {
				if p.Session().IsClosed() {
					closed = append(closed, i)
				}
			}
			sm.RUnlock()
			r.Violf("the restart event of one session was lost; 12 s after the old server let go the new server holds %d of %d sessions, pools with a closed session: %v (the pool that stayed behind was never re-established)", open, c.Sessions, closed)
			return
		}
	}
	time.Sleep(150 * time.Millisecond)
	tAfter := time.Now()
	time.Sleep(100 * time.Millisecond)
	stopTraffic()
	mu.Lock()
	defer mu.Unlock()
	okBefore, okAfter := 0, 0
	for _, rt := range trips {
		switch {
		case rt.end.Before(tClose):
			// old sessions stay usable until the old server lets go; new ones are usable as soon as they exist
			if rt.err != "" && (faultFree && c.DeltaMs < 0) {
				r.Violf("a round trip that ran %.0f..%.0f ms after HotRestart (old server still up) failed: %s", rt.start.Sub(tHR).Seconds()*1000, rt.end.Sub(tHR).Seconds()*1000, rt.err)
				return
			}
			if rt.err == "" {
				okBefore++
			}
		case rt.start.After(tAfter):
			if rt.err != "" && faultFree && c.DeltaMs < 0 {
				r.Violf("both sides reported the restart done (%.0f ms after the call) and the old server is closed, yet a round trip started afterwards failed: %s", tDone.Sub(tHR).Seconds()*1000, rt.err)
				return
			}
			if rt.err == "" {
				okAfter++
			}
		}
		if strings.HasPrefix(rt.err, "panic") || strings.Contains(rt.err, "nonce") {
			r.Violf("round trip: %s", rt.err)
			return
		}
	}
	r.Label("fault:" + c.Fault)
	r.Count("round_trips", len(trips))
	if okBefore > 0 && (okAfter > 0 || !faultFree) {
		r.NonTrivial()
	}
}

// closeSM: SessionManager.Close in the clean-up path must not be able to wedge the harness (a stuck Close is judged where it is the subject)
func closeSM(sm *SessionManager) {
	done := make(chan struct{})
	go func() { sm.Close(); close(done) }()
	select {
	case <-done:
	case <-time.After(3 * time.Second):
	}
}

func poolEpochs(sm *SessionManager) []uint64 {
	sm.RLock()
	defer sm.RUnlock()
	var e []uint64
	for _, p := range sm.pools {
		e = append(e, p.Session().epochID)
	}
	return e
}

func TestVerifC16HotRestart(t *testing.T) {
	runCheck(t, checkDef[hrCase]{name: "TestVerifC16HotRestart", lastCase: true,
		rule: "a real SessionManager with 1-4 sessions and 1-2 traffic goroutines (GetStream / request / response / PutBack throughout) against an in-process echo Listener; a second Listener takes over the unix path 1-300 ms before HotRestart(epoch) is called on the old one (or never: fault no-new-server); generated epochs; faults: second HotRestart call, an event of a foreign epoch injected during the restart, one client session killed just before; " +
			"oracle: listener and session manager leave the hot-restart state within 3.5 s in every case; fault-free: every pool ends on a session of the announced epoch, the new server holds exactly N sessions, round trips before the old server closes and after both sides are done all succeed, a foreign epoch changes nothing; " +
			"non-trivial = traffic succeeded both before and after the hand-over (or a fault was injected); distinct by case hash",
		assumptions: []string{"the new server listens before the restart is announced (fault-free cases); with no new server only the bounded exit from the restart state is judged",
			"round trips that straddle the old server's shutdown are exempt"},
		gen: genHrCase, run: hrRun})
}

// ---------------- C17 ----------------

type healStep struct {
	K       string `json:"k"`        // kill-session | restart-listener | wait
	I       int    `json:"i"`        // pool index
	DownMs  int    `json:"down_ms"`  // restart-listener: how long the server stays away
}

type healCase struct {
	Pools      int        `json:"pools"`
	MemFd      bool       `json:"memfd"`
	RebuildMs  int        `json:"rebuild_ms"`
	Steps      []healStep `json:"steps"`
	CloseEarly bool       `json:"close_early"` // SessionManager.Close while a rebuild is pending
	// SlowHsMs > 0: once the manager is up, the server holds every further handshake up for this long; with CloseEarly the
	// manager is then closed while the replacement session's handshake is in flight
	SlowHsMs int `json:"slow_hs_ms,omitempty"`
}

func genHealCase(t *rapid.T) healCase {
	c := healCase{Pools: rapid.IntRange(1, 3).Draw(t, "pools"), MemFd: rapid.Bool().Draw(t, "memfd"),
		RebuildMs: rapid.SampledFrom([]int{20, 50, 120}).Draw(t, "rebuild"), CloseEarly: rapid.IntRange(0, 3).Draw(t, "closeearly") == 0,
		SlowHsMs: rapid.SampledFrom([]int{0, 0, 300}).Draw(t, "slow_hs")}
	n := rapid.IntRange(1, 3).Draw(t, "nsteps")
	for i := 0; i < n; i++ {
		k := rapid.IntRange(0, 4).Draw(t, "kind")
		if k == 4 && c.Pools >= 2 {
			// a session is lost and, before its pool is rebuilt, the server announces a hot restart in which the other pools take part
			c.Steps = append(c.Steps, healStep{K: "kill-then-hotrestart", I: rapid.IntRange(0, c.Pools-1).Draw(t, "i")})
		} else if k == 0 {
			c.Steps = append(c.Steps, healStep{K: "restart-listener", DownMs: rapid.SampledFrom([]int{0, 30, 150}).Draw(t, "down")})
		} else {
			c.Steps = append(c.Steps, healStep{K: "kill-session", I: rapid.IntRange(0, c.Pools-1).Draw(t, "i")})
		}
	}
	return c
}

func goroutinesAt(fn string) int {
	buf := make([]byte, 1<<20)
	n := runtime.Stack(buf, true)
	return strings.Count(string(buf[:n]), fn)
}

func healRun(c healCase, r *runCtx) {
	path := "/tmp/" + uniqueName("heal") + ".sock"
	defer os.Remove(path)
	var gate *gateLog
	mkServer := func() *echoServer {
		if gate != nil {
			return newEchoServerAtLog(path, true, gate)
		}
		return newEchoServerAt(path, true)
	}
	if c.SlowHsMs > 0 {
		gate = &gateLog{d: time.Duration(c.SlowHsMs) * time.Millisecond}
		oldLevel := level
		level = levelInfo
		defer func() { level = oldLevel }()
		r.Label("slow-server-handshakes")
	}
	es := mkServer()
	defer func() { es.ln.Close() }()
	accepted := int64(0)
	// count every session the server side ever sets up
	countAccepted := func(e *echoServer) int {
		_, total := e.sessionCount()
		return total
	}
	_ = accepted
	conf := smConfigFor(es, c.Pools, 4, c.MemFd)
	conf.Config.rebuildInterval = time.Duration(c.RebuildMs) * time.Millisecond
	watchersBefore := goroutinesAt("(*SessionManager).background.func1")
	sm, err := NewSessionManager(conf)
	if err != nil {
		harnessFail("NewSessionManager: %v", err)
	}
	smClosed := false
	defer func() {
		if !smClosed {
			sm.Close()
		}
	}()
	roundTripOK := func() string {
		st, err := sm.GetStream()
		if err != nil {
			return "GetStream: " + err.Error()
		}
		req := keyedBytes(17, 0, 32)
		st.BufferWriter().WriteBytes(req)
		if err := st.Flush(false); err != nil {
			st.Close()
			return "Flush: " + err.Error()
		}
		st.SetReadDeadline(time.Now().Add(2 * time.Second))
		got, err := st.BufferReader().ReadBytes(len(req))
		if err != nil || string(got) != string(req) {
			st.Close()
			return fmt.Sprintf("response: %v", err)
		}
		st.BufferReader().ReleasePreviousRead()
		sm.PutBack(st)
		return ""
	}
	allPoolsOK := func() string {
		// GetStream walks the pools round-robin in blocks of 32 calls: probe every pool directly
		for i, p := range sm.pools {
			s := p.Session()
			if s == nil || s.IsClosed() {
				return fmt.Sprintf("pool %d still has a closed session", i)
			}
		}
		return roundTripOK()
	}
	if msg := allPoolsOK(); msg != "" {
		harnessFail("fresh manager: %s", msg)
	}
	if gate != nil {
		atomic.StoreInt32(&gate.armed, 1)
	}
	losses := 0
	serverGen := 1
	hrEpoch := uint64(40)
	totalAccepted := countAccepted(es)
	for si, st := range c.Steps {
		switch st.K {
		case "kill-session":
			// the server side session of pool I disappears
			cs := sm.pools[st.I].Session()
			var victim *Session
			es.ln.sessions.sessionMu.Lock()
			for s := range es.ln.sessions.data {
				if s.sessionName() == cs.sessionName() {
					victim = s
				}
			}
			es.ln.sessions.sessionMu.Unlock()
			if victim == nil {
				continue
			}
			victim.Close()
			losses++
			r.Label("server-session-killed")
		case "kill-then-hotrestart":
			cs := sm.pools[st.I].Session()
			var victim *Session
			es.ln.sessions.sessionMu.Lock()
			for s := range es.ln.sessions.data {
				if s.sessionName() == cs.sessionName() {
					victim = s
				}
			}
			es.ln.sessions.sessionMu.Unlock()
			if victim == nil {
				continue
			}
			// the old server must know all sessions before it announces anything
			waitUntil(2*time.Second, func() bool { open, _ := es.sessionCount(); return open == c.Pools })
			victim.Close()
			waitUntil(time.Second, cs.IsClosed)
			losses++
			es.ln.SetUnlinkOnClose(false)
			es2 := mkServer()
			time.Sleep(2 * time.Millisecond)
			hrEpoch++
			if err := es.ln.HotRestart(hrEpoch); err != nil {
				r.Label("hotrestart-refused:" + err.Error())
			}
			waitUntil(3500*time.Millisecond, func() bool {
				sm.RLock()
				stt := sm.state
				sm.RUnlock()
				return es.ln.IsHotRestartDone() && stt != hotRestartState
			})
			es.ln.Close()
			*es = *es2
			serverGen++
			r.Label("session-lost-then-hot-restart")
		case "restart-listener":
			before := countAccepted(es)
			totalAccepted += before - totalAcceptedBase(serverGen, before)
			_, open := 0, 0
			open, _ = es.sessionCount()
			losses += open
			es.ln.Close()
			// calls made during the outage fail, they do not hang
			t0 := time.Now()
			_, err := sm.GetStream()
			if el := time.Since(t0); el > time.Second {
				r.Violf("step %d: GetStream during the outage took %v (err %v)", si, el, err)
				return
			}
			time.Sleep(time.Duration(st.DownMs) * time.Millisecond)
			es2 := mkServer()
			*es = *es2
			serverGen++
			r.Label("listener-restarted")
		}
		if c.CloseEarly && si == len(c.Steps)-1 {
			break
		}
		// healed within the rebuild interval + slack, then a round trip works again
		deadline := time.Duration(c.RebuildMs)*time.Millisecond + 2*time.Second
		if st.K == "kill-then-hotrestart" {
			deadline += 3 * time.Second // the watcher pauses while the manager is in the hot-restart state (500 ms polls)
		}
		if !waitUntil(deadline, func() bool { return allPoolsOK() == "" }) {
			r.Violf("step %d (%s): %v after the loss the manager has not healed: %s", si, st.K, deadline, allPoolsOK())
			return
		}
	}
	if c.CloseEarly {
		if gate != nil && losses > 0 {
			// wait until the replacement session's handshake is being held up by the server: Close lands in the middle of it
			h0 := atomic.LoadInt32(&gate.held)
			if waitUntil(time.Duration(c.RebuildMs)*time.Millisecond+1500*time.Millisecond, func() bool { return atomic.LoadInt32(&gate.held) > h0 || allPoolsOK() == "" }) {
				r.Label("closed-during-rebuild-handshake")
			}
		}
		// Close while (possibly) a rebuild timer is pending: it must return and stop everything
		done := make(chan struct{})
		go func() { sm.Close(); close(done) }()
		select {
		case <-done:
		case <-time.After(3 * time.Second):
			r.Violf("SessionManager.Close did not return within 3 s while a rebuild was pending")
			return
		}
		smClosed = true
		r.Label("closed-while-rebuilding")
	} else {
		// nothing was lost twice: the server saw exactly one replacement per loss (current generation only)
		time.Sleep(time.Duration(c.RebuildMs)*time.Millisecond + 50*time.Millisecond)
		// (the server registers a replacement session a moment after the client's handshake returned)
		waitUntil(2*time.Second, func() bool { open, _ := es.sessionCount(); return open == c.Pools })
		time.Sleep(time.Duration(c.RebuildMs)*time.Millisecond + 20*time.Millisecond)
		open, _ := es.sessionCount()
		if open != c.Pools {
			r.Violf("after healing the server holds %d open sessions for %d pools (a pool was rebuilt twice, or not at all)", open, c.Pools)
			return
		}
		sm.Close()
		smClosed = true
	}
	// "closing the manager stops all of this": no session of the manager survives it, whatever was in progress when Close was called
	if !waitUntil(3*time.Second+time.Duration(c.SlowHsMs)*time.Millisecond, func() bool {
		open, _ := es.sessionCount()
		if open != 0 {
			return false
		}
		for _, p := range sm.pools {
			if s := p.Session(); s != nil && !s.IsClosed() {
				return false
			}
		}
		return true
	}) {
		open, _ := es.sessionCount()
		var alive []int
		for i, p := range sm.pools {
			if s := p.Session(); s != nil && !s.IsClosed() {
				alive = append(alive, i)
			}
		}
		r.Violf("SessionManager.Close returned, but the server still holds %d open session(s) of it and pools %v have a live session (a session established while Close was running was left alive)", open, alive)
		return
	}
	if _, err := sm.GetStream(); err == nil {
		r.Violf("GetStream on a closed SessionManager returned a stream")
		return
	}
	if !waitUntil(2*time.Second, func() bool { return goroutinesAt("(*SessionManager).background.func1") <= watchersBefore }) {
		r.Violf("SessionManager.Close returned but %d watcher goroutine(s) are still running", goroutinesAt("(*SessionManager).background.func1")-watchersBefore)
		return
	}
	// and it stays quiet: no further connection attempts
	before, _ := es.sessionCount()
	time.Sleep(time.Duration(c.RebuildMs)*time.Millisecond + 30*time.Millisecond)
	if after, _ := es.sessionCount(); after > before {
		r.Violf("after SessionManager.Close the server received %d new session(s)", after-before)
		return
	}
	if losses > 0 {
		r.NonTrivial()
	}
	_ = atomic.LoadInt64
}

func totalAcceptedBase(gen, before int) int { return before }

func TestVerifC17Heal(t *testing.T) {
	runCheck(t, checkDef[healCase]{name: "TestVerifC17Heal", lastCase: true,
		rule: "a real SessionManager with 1-3 pools and a rebuild interval of 20-120 ms against an in-process echo Listener; fault script of 1-3 steps: the server-side session of pool i is closed, or the whole listener is closed and comes back after 0-150 ms; optionally SessionManager.Close while a rebuild is pending; " +
			"oracle: GetStream during the outage fails within 1 s, every pool is healed within rebuildInterval + 2 s and a round trip works, the server holds exactly one session per pool afterwards, Close returns within 3 s, its watcher goroutines end and no further connection is attempted; " +
			"non-trivial = at least one session was lost and replaced; distinct by case hash",
		assumptions: []string{"rebuild interval set through the unexported config field (20-120 ms instead of 60 s)"},
		gen:         genHealCase, run: healRun})
}
