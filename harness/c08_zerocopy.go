//go:build verif

package shmipc

// C08 - zero-copy read results stay valid until they are released (engine E2, DESIGN.md 5/C08).
// Reuses the C06 interpreter: every slice returned by ReadBytes/Peek is remembered with its expected content and
// re-compared after every later op until the reader releases; an adversary op cycles all free shared memory.

import (
	"testing"
	"time"
	"unsafe"

	"pgregory.net/rapid"
)

type zcResult struct {
	got    []byte
	expect []byte
	kind   string
	opIdx  int
	inShm  bool
}

func genZeroCopyCase(t *rapid.T) pipeCase {
	cfg := defaultPairCfg
	if rapid.IntRange(0, 3).Draw(t, "cfgmode") == 0 {
		cfg = genPairCfg(t)
	}
	ops := genPipeOps(t, cfg, 40, false)
	// sprinkle adversary activity between the ops (positions and count generated)
	n := rapid.IntRange(1, 6).Draw(t, "nadv")
	for k := 0; k < n; k++ {
		pos := rapid.IntRange(0, len(ops)).Draw(t, "advpos")
		ops = append(ops[:pos], append([]pipeOp{{K: "Adversary"}}, ops[pos:]...)...)
	}
	return pipeCase{Cfg: cfg, Ops: ops, Fin: rapid.IntRange(0, 1).Draw(t, "fin")}
}

func zeroCopyRun(c pipeCase, r *runCtx) {
	var outstanding [2][]zcResult
	opIdx := 0
	var memLo, memHi uintptr
	inShm := func(b []byte) bool {
		if len(b) == 0 {
			return false
		}
		a := uintptr(unsafe.Pointer(&b[0]))
		return a >= memLo && a < memHi
	}
	verify := func(when string) {
		for e := 0; e < 2; e++ {
			for _, z := range outstanding[e] {
				for j := range z.expect {
					if z.got[j] != z.expect[j] {
						r.Violf("%s: result of %s at op %d (end %d, %d bytes, zero-copy=%v) changed before the reader released it: byte %d is %#x, was %#x",
							when, z.kind, z.opIdx, e, len(z.expect), z.inShm, j, z.got[j], z.expect[j])
						return
					}
				}
			}
		}
	}
	hooks := &pipeHooks{
		onResult: func(e int, kind string, data, expect []byte) {
			z := zcResult{got: data, expect: expect, kind: kind, opIdx: opIdx, inShm: inShm(data)}
			outstanding[e] = append(outstanding[e], z)
			if z.inShm {
				r.Label("zero-copy-result")
			} else {
				r.Label("copied-result")
			}
		},
		onRelease: func(e int) { outstanding[e] = nil },
		afterOp: func(i int, op pipeOp, st [2]*Stream, p *pairT) {
			opIdx = i + 1
			if memHi == 0 {
				mem := p.c.bufferManager.mem
				memLo = uintptr(unsafe.Pointer(&mem[0]))
				memHi = memLo + uintptr(len(mem))
				// results recorded during the very first op were classified before the range was known
				for e := 0; e < 2; e++ {
					for k := range outstanding[e] {
						outstanding[e][k].inShm = inShm(outstanding[e][k].got)
					}
				}
			}
			if op.K == "Adversary" {
				nz := 0
				for e := 0; e < 2; e++ {
					for _, z := range outstanding[e] {
						if z.inShm {
							nz++
						}
					}
				}
				if nz >= 2 {
					r.NonTrivial()
					r.Label("adversary-with>=2-zero-copy-results-out")
				} else if nz == 1 {
					r.Label("adversary-with-1-zero-copy-result-out")
				}
			}
			verify("after op " + op.K)
		},
		final: func(st *[2]*Stream, p *pairT, m *pipeModel) {
			// "after the release the underlying buffers are available for allocation again":
			// flush what is pending, read and release everything on both ends; with both streams still open every slot must be free
			p.unhog()
			if st[1] == nil && m.flushed[0] > 0 {
				st[1] = pipeAccept(p, st[0].StreamID(), r)
				if st[1] == nil {
					r.Violf("final: client flushed %d bytes but the server never got the stream", m.flushed[0])
					return
				}
			}
			for round := 0; round < 2; round++ {
				for e := 0; e < 2; e++ {
					if st[e] == nil {
						continue
					}
					// one more byte uses up a slice parked by ReleaseReadAndReuse
					if st[1-e] != nil || e == 0 {
						d := e
						if err := st[e].BufferWriter().WriteByte(keyed(pipeKey(d), m.written[d])); err != nil {
							r.Violf("final: WriteByte: %v", err)
							return
						}
						m.written[d]++
						if err := st[e].Flush(false); err != nil {
							r.Violf("final: Flush: %v", err)
							return
						}
						m.flushed[d] = m.written[d]
					}
				}
				if st[1] == nil {
					st[1] = pipeAccept(p, st[0].StreamID(), r)
					if st[1] == nil {
						r.Violf("final: server never got the stream")
						return
					}
				}
			}
			for e := 0; e < 2; e++ {
				d := 1 - e
				if av := m.avail(d); av > 0 {
					st[e].SetReadDeadline(time.Now().Add(e2Stall))
					got, err := st[e].BufferReader().ReadBytes(av)
					if err != nil || len(got) != av {
						r.Violf("final: ReadBytes(%d) = %d bytes, %v", av, len(got), err)
						return
					}
					for j := range got {
						if got[j] != keyed(pipeKey(d), m.consumed[d]+j) {
							r.Violf("final: byte %d of the tail differs", m.consumed[d]+j)
							return
						}
					}
					m.consumed[d] += av
				}
				verify("before final release")
				outstanding[e] = nil
				if c.Fin == 0 {
					st[e].BufferReader().ReleasePreviousRead()
				}
			}
			if c.Fin == 1 {
				// release by closing: results obtained above are still pinned when Close is called
				r.Label("released-by-close")
				st[0].Close()
				st[1].Close()
				if !p.settle(2*time.Second, r) {
					r.Violf("everything was read, then both ends closed their stream without ReleasePreviousRead: pair not clean (%s), free slots per class %v", p.dirt(), p.freeCounts())
				}
				return
			}
			if !waitUntil(2*time.Second, p.allFree) {
				r.Violf("everything flushed was read and released on both ends (streams still open) but free slots per class are %v, not the capacities", p.freeCounts())
			}
		},
	}
	pipeRun(c, r, hooks)
	r.nontrivial = r.labels["adversary-with>=2-zero-copy-results-out"] // C08's own rule, not C06's
}

func TestVerifC08ZeroCopy(t *testing.T) {
	runCheck(t, checkDef[pipeCase]{name: "TestVerifC08ZeroCopy",
		rule: "C06 op lists with ReadBytes/Peek sizes around slice ends plus 1-6 generated adversary ops (allocate every free slot, overwrite header fields and payload with 0xEE, free); " +
			"every ReadBytes/Peek result is re-compared after every later op until Release/Reuse; at the end everything is read and released and all slots must be free with the streams still open; " +
			"non-trivial = an adversary op ran while >= 2 zero-copy (shared-memory backed) results were outstanding; distinct by case hash",
		assumptions: c06Assumptions, gen: genZeroCopyCase, run: zeroCopyRun})
}
