//go:build verif

package shmipc

// C07 (schedule part) - multiplexed streams stay isolated and ordered; close never overtakes data. Engine E1 stream scenarios.

import (
	"bytes"
	"fmt"
	"os"
	"testing"

	"pgregory.net/rapid"
)

func genC07Sim(t *rapid.T) streamsCase {
	c := streamsCase{Cfg: defaultSimCfg}
	c.Cfg.QueueCap = 64
	ns := rapid.IntRange(2, 3).Draw(t, "nstreams")
	nthreads := 4
	for i := 0; i < ns; i++ {
		var st sStream
		shape := rapid.SampledFrom([]string{"shm", "shm", "fallback", "shm-then-fallback"}).Draw(t, "shape")
		nm := rapid.IntRange(1, 3).Draw(t, "nmsg")
		for j := 0; j < nm; j++ {
			op := sOp{K: "flush", N: rapid.SampledFrom([]int{1, 10, 64, 65, 200}).Draw(t, "n")}
			switch shape {
			case "fallback":
				op.FB = true
			case "shm-then-fallback":
				op.FB = j == nm-1 && nm > 1
			}
			st.C.Prog = append(st.C.Prog, op)
		}
		if rapid.IntRange(0, 4).Draw(t, "close") != 0 {
			st.C.Prog = append(st.C.Prog, sOp{K: "close"})
		}
		st.S.Prog = []sOp{{K: "readall"}}
		if rapid.IntRange(0, 3).Draw(t, "cbreader") == 0 {
			// callback-mode reader. Known finding cb-remote-close-before-data: OnRemoteClose can precede the last OnData;
			// excluded by construction: such a stream is closed by the writer only after the reader acknowledged everything
			st.S.Prog = nil
			st.S.CB = []cbPolicy{{Take: rapid.SampledFrom([]int{0, 1, 7}).Draw(t, "take")}}
			total := 0
			closes := false
			var prog []sOp
			for _, op := range st.C.Prog {
				if op.K == "flush" {
					total += op.N
					prog = append(prog, op)
				} else if op.K == "close" {
					closes = true
				}
			}
			if closes {
				if os.Getenv("VERIF_PROBE_CBORDER") == "" {
					st.S.AckAt = total
					prog = append(prog, sOp{K: "readn", N: 1})
				}
				prog = append(prog, sOp{K: "close"})
			}
			st.C.Prog = prog
		}
		c.Streams = append(c.Streams, st)
		nthreads += 2
	}
	c.Sched = genSchedPlanHot(t, nthreads, 2500, 3, 250)
	return c
}

// judgeC07 is shared by the sim and (later) the free-running variants: reader bytes vs. successfully flushed bytes
func judgeC07Sim(c streamsCase, h *streamsHist, r *runCtx) {
	if h.viol != "" {
		r.Violf("%s\nlast scheduling points: %v", h.viol, h.sc.Tail(30))
		return
	}
	inflight := 0
	for i := range c.Streams {
		ce, se := h.ends[i][0], h.ends[i][1]
		want := ce.flushed
		got := se.read
		fbThenClose := ce.fbAtClose || (ce.sentFB && ce.closeCalled)
		mixed := ce.sentFB && len(c.Streams[i].C.Prog) > 1 && !c.Streams[i].C.Prog[0].FB
		// cross-stream delivery: bytes keyed for another stream
		if !bytes.HasPrefix(want, got) {
			other := -1
			for j := range c.Streams {
				if j != i && len(got) > 0 && bytes.HasPrefix(h.ends[j][0].flushed, got[:1]) && bytes.Contains(h.ends[j][0].flushed, got[:min3(len(got), 4)]) && len(got) >= 4 {
					other = j
				}
			}
			msg := fmt.Sprintf("stream %d: the reader obtained %d bytes that are not a prefix of the %d bytes flushed (first difference at byte %d)", h.ids[i], len(got), len(want), firstDiff(want, got))
			if other >= 0 {
				r.Violf("%s; they look like bytes of stream %d (cross-stream delivery)", msg, h.ids[other])
			} else if mixed {
				r.ViolSig("fallback-overtakes-shm", "%s: a message sent through the socket overtook an earlier shared-memory message of the same stream\nlast scheduling points: %v", msg, h.sc.Tail(30))
			} else {
				r.Violf("%s\nlast scheduling points: %v", msg, h.sc.Tail(30))
			}
			return
		}
		if len(c.Streams[i].S.CB) > 0 {
			// callback-mode reader: "told the stream ended" = OnRemoteClose
			if se.remoteCloseBeforeBytes >= 0 && se.remoteCloseBeforeBytes != len(want) {
				r.ViolSig("cb-remote-close-before-data", "stream %d (callback mode): OnRemoteClose fired when only %d of the %d bytes flushed before the peer's Close had been offered to OnData\nlast scheduling points: %v",
					h.ids[i], se.remoteCloseBeforeBytes, len(want), h.sc.Tail(30))
				return
			}
			if len(got) != len(want) && se.stream != nil {
				r.Violf("stream %d (callback mode): %d bytes flushed, only %d offered to OnData at quiescence; %s\nlast scheduling points: %v", h.ids[i], len(want), len(got), h.worldState(), h.sc.Tail(30))
				return
			}
			if ce.closeCalled && ce.progDone[0] && se.stream != nil && se.onRemote != 1 {
				r.Violf("stream %d (callback mode): writer closed, nothing in flight, OnRemoteClose fired %d times; %s", h.ids[i], se.onRemote, h.worldState())
				return
			}
			r.Label("callback-reader")
			if ce.closeCalled {
				inflight++
			}
			continue
		}
		if se.readDone {
			if len(got) != len(want) {
				msg := fmt.Sprintf("stream %d: the reader was told the stream ended (%s) after %d of the %d bytes flushed successfully before Close", h.ids[i], se.readErr, len(got), len(want))
				if fbThenClose {
					r.ViolSig("close-overtakes-fallback", "%s (the writer was in socket-fallback state when it closed)\nlast scheduling points: %v", msg, h.sc.Tail(30))
				} else {
					r.ViolSig("eof-before-pending-data", "%s\nlast scheduling points: %v", msg, h.sc.Tail(30))
				}
				return
			}
		} else if ce.closeCalled && ce.progDone[0] {
			// quiescent: writer closed, nothing in flight, but the reader was never told
			msg := fmt.Sprintf("stream %d: writer flushed %d bytes and closed, nothing is in flight any more, but the reader (got %d bytes) was never told the stream ended; blocked: %v", h.ids[i], len(want), len(got), h.blockedApps())
			if fbThenClose {
				r.ViolSig("close-overtakes-fallback", "%s (the writer was in socket-fallback state when it closed)\nlast scheduling points: %v", msg, h.sc.Tail(30))
			} else {
				r.Violf("%s\nlast scheduling points: %v", msg, h.sc.Tail(30))
			}
			return
		} else if len(got) != len(want) && se.stream != nil {
			// writer did not close: at quiescence everything flushed must have been offered to the blocked reader
			r.Violf("stream %d: %d bytes flushed, reader blocked with only %d at quiescence; blocked: %v; %s\nlast scheduling points: %v", h.ids[i], len(want), len(got), h.blockedApps(), h.worldState(), h.sc.Tail(30))
			return
		}
		if ce.sentFB {
			r.Label("stream-used-fallback")
		}
		if mixed {
			r.Label("stream-switched-transport")
		}
		if ce.closeCalled {
			inflight++
		}
	}
	if h.obs.preemptions > 0 && inflight > 0 && len(c.Streams) >= 2 {
		r.NonTrivial()
	}
}

func firstDiff(a, b []byte) int {
	for i := 0; i < len(a) && i < len(b); i++ {
		if a[i] != b[i] {
			return i
		}
	}
	return min3(len(a), len(b))
}

func TestVerifC07Sim(t *testing.T) {
	runCheck(t, checkDef[streamsCase]{name: "TestVerifC07Sim", replayTries: 5,
		rule: "2-3 streams on the hand-wired session pair, per stream a writer thread flushing 1-3 messages (pure shared memory / all socket fallback / shared memory then fallback) and usually closing, a reader thread per stream reading to end-of-stream, under a generated schedule (PCT depth<=3 over hot points, preemption lists, random walk); " +
			"oracle: reader bytes are a prefix of the successfully flushed bytes at all times and equal at end-of-stream, end-of-stream is reported once the writer closed and nothing is in flight; " +
			"non-trivial = >= 2 streams, at least one close issued, at least one pre-emptive switch; distinct by case hash",
		assumptions: []string{"sequentially consistent execution at statement granularity", "epoll loop and socket replaced by event-loop virtual threads and an in-memory byte pipe"},
		gen:         genC07Sim, run: func(c streamsCase, r *runCtx) { judgeC07Sim(c, runStreams(c, r), r) }})
}
