//go:build verif

package shmipc

// C01 / C02 - free-list ownership and conservation under generated schedules (engine E1 primitive level, DESIGN.md 5/C01, 5/C02).
// The real bufferList/bufferManager code (rewritten by vinstr so that every statement and atomic is a scheduling point)
// is driven by 2-4 virtual threads over two views of one memory (creator + mapped peer), the schedule is part of the case.

import (
	"encoding/json"
	"fmt"
	"os"
	"strings"
	"testing"
	"unsafe"

	"github.com/cloudwego/shmipc-go/vsched"
	"github.com/cloudwego/shmipc-go/vsched/vatomic"
	"pgregory.net/rapid"
)

type allocClass struct {
	Cap   uint32 `json:"cap"`
	Slots uint32 `json:"slots"`
}

type allocOp struct {
	K string `json:"k"`
	C int    `json:"c,omitempty"` // class index / held index selector
	N int    `json:"n,omitempty"` // size / count
}

type allocThread struct {
	View int       `json:"view"` // 0 creator, 1 mapped peer
	Ops  []allocOp `json:"ops"`
}

type allocCase struct {
	Classes  []allocClass  `json:"classes"`
	Threads  []allocThread `json:"threads"`
	Sched    schedPlan     `json:"sched"`
	JudgeABA bool          `json:"judge_aba,omitempty"` // probes of known finding D1 judge runs in which the head ABA fired
	// ScanPreempt > 0 (probes only): run the case once per k in 1..ScanPreempt with the single pre-emption (k -> thread 1), so that
	// the probe does not depend on the exact number of scheduling points the rewriter puts into pop()
	ScanPreempt int `json:"scan_preempt,omitempty"`
}

func genAllocCase(t *rapid.T) allocCase {
	var c allocCase
	ncl := rapid.IntRange(1, 2).Draw(t, "nclass")
	caps := []uint32{8, 24}
	for i := 0; i < ncl; i++ {
		c.Classes = append(c.Classes, allocClass{Cap: caps[i], Slots: uint32(rapid.IntRange(1, 6).Draw(t, "slots"))})
	}
	nth := rapid.IntRange(2, 4).Draw(t, "nthreads")
	kinds := []string{"pop", "pop", "alloc", "allocN", "link", "verify", "free", "free", "free", "freeChain"}
	for i := 0; i < nth; i++ {
		th := allocThread{View: rapid.IntRange(0, 1).Draw(t, "view")}
		nops := rapid.IntRange(1, 8).Draw(t, "nops")
		for j := 0; j < nops; j++ {
			op := allocOp{K: rapid.SampledFrom(kinds).Draw(t, "k")}
			switch op.K {
			case "pop":
				op.C = rapid.IntRange(0, ncl-1).Draw(t, "c")
			case "alloc":
				op.N = int(rapid.SampledFrom([]uint32{1, 8, 9, 24, 25}).Draw(t, "n"))
			case "allocN":
				op.N = rapid.IntRange(1, 80).Draw(t, "n")
			case "verify", "free":
				op.C = rapid.IntRange(0, 7).Draw(t, "idx")
			case "link":
				op.C = rapid.IntRange(0, 7).Draw(t, "idx")
				op.N = rapid.IntRange(0, 7).Draw(t, "idx2")
			case "freeChain":
				op.N = rapid.IntRange(2, 4).Draw(t, "n")
			}
			th.Ops = append(th.Ops, op)
		}
		c.Threads = append(c.Threads, th)
	}
	c.Sched = genSchedPlan(t, nth, 400, 3)
	c.JudgeABA = os.Getenv("VERIF_JUDGE_ABA") != "" // maintenance: search for probes of known finding D1
	return c
}

// allocWorld: one memory, two manager views
type allocWorld struct {
	mem   []byte
	views [2]*bufferManager
}

func newAllocWorld(classes []allocClass) *allocWorld {
	size := uint32(bufferManagerHeaderSize)
	for _, cl := range classes {
		size += countBufferListMemSize(cl.Slots, cl.Cap)
	}
	mem := make([]byte, size)
	*(*uint16)(unsafe.Pointer(&mem[0])) = uint16(len(classes))
	off := uint32(bufferManagerHeaderSize)
	var lists []*bufferList
	for _, cl := range classes {
		l, err := createFreeBufferList(cl.Slots, cl.Cap, mem, off)
		if err != nil {
			harnessFail("createFreeBufferList: %v", err)
		}
		lists = append(lists, l)
		off += countBufferListMemSize(cl.Slots, cl.Cap)
	}
	*(*uint32)(unsafe.Pointer(&mem[bmCapOffset])) = off - bufferManagerHeaderSize
	cbm := &bufferManager{lists: lists, mem: mem, minSliceSize: classes[0].Cap, maxSliceSize: classes[len(classes)-1].Cap, refCount: 1}
	pbm, err := mappingBufferManager("c01", mem, 0)
	if err != nil {
		harnessFail("mappingBufferManager: %v", err)
	}
	return &allocWorld{mem: mem, views: [2]*bufferManager{cbm, pbm}}
}

type heldBuf struct {
	next  *heldBuf // the holder linked this buffer to another one it holds (multi-slice message)
	b     *bufferSlice
	off   uint32
	class int
	sig   byte
	owner int
}

func allocRun(c allocCase, r *runCtx, judge string) {
	if c.ScanPreempt > 0 {
		n := c.ScanPreempt
		c.ScanPreempt = 0
		for k := 1; k <= n && !r.Failed(); k++ {
			c.Sched = schedPlan{Kind: "preempt", Preempt: [][2]int{{k, 1}}}
			allocRun(c, r, judge)
		}
		return
	}
	w := newAllocWorld(c.Classes)
	vatomic.ResetWatch()
	for _, l := range w.views[0].lists {
		vatomic.Watch(unsafe.Pointer(l.head))
	}
	defer vatomic.ResetWatch()
	held := map[uint32]*heldBuf{} // by offset in shm
	perThread := make([][]*heldBuf, len(c.Threads))
	inOp := make([]int, len(c.Threads)+1)
	stop := false
	sigSeq := byte(1)
	var viol string
	fail := func(format string, a ...interface{}) {
		if viol == "" {
			viol = fmt.Sprintf(format, a...)
		}
		stop = true
	}
	classOf := func(off uint32) int {
		for i, l := range w.views[0].lists {
			if off >= l.bufferRegionOffsetInShm && off < l.bufferRegionOffsetInShm+uint32(len(l.bufferRegion)) {
				return i
			}
		}
		return -1
	}
	// invariants checked (atomically w.r.t. the scheduler) after every operation
	heldPerClass := func(ci int) int {
		n := 0
		for _, h := range held {
			if h.class == ci {
				n++
			}
		}
		return n
	}
	checkStep := func(where string) {
		for i, l := range w.views[0].lists {
			stride := *l.capPerBuffer + bufferHeaderSize
			if h := *l.head; h%stride != 0 || h/stride >= *l.cap {
				fail("%s: class %d head %d is not a slot boundary inside the region", where, i, h)
			}
			if tl := *l.tail; tl%stride != 0 || tl/stride >= *l.cap {
				fail("%s: class %d tail %d is not a slot boundary inside the region", where, i, tl)
			}
			if judge != "C01" {
				if n := heldPerClass(i); int(*l.size)+n > int(*l.cap) {
					fail("%s: class %d free count %d + held %d exceeds capacity %d", where, i, *l.size, n, *l.cap)
				}
			}
		}
	}
	verifyHeld := func(tid int, h *heldBuf, where string) {
		hdr := w.mem[h.off : h.off+bufferHeaderSize]
		capv := *(*uint32)(unsafe.Pointer(&hdr[bufferCapOffset]))
		sz := *(*uint32)(unsafe.Pointer(&hdr[bufferSizeOffset]))
		st := *(*uint32)(unsafe.Pointer(&hdr[bufferDataStartOffset]))
		if capv != c.Classes[h.class].Cap || sz != c.Classes[h.class].Cap || st != 0 {
			fail("%s: thread %d holds slot %d but its header was altered: cap %d size %d start %d", where, tid, h.off, capv, sz, st)
			return
		}
		if h.next != nil {
			if !bufferHeader(hdr).hasNext() || bufferHeader(hdr).nextBufferOffset() != h.next.off {
				fail("%s: thread %d linked slot %d to slot %d, now the header says next=%d flag=%#x", where, tid, h.off, h.next.off, bufferHeader(hdr).nextBufferOffset(), hdr[bufferFlagOffset])
				return
			}
		} else if bufferHeader(hdr).hasNext() {
			fail("%s: thread %d holds slot %d but somebody linked a next buffer to it (flag %#x)", where, tid, h.off, hdr[bufferFlagOffset])
			return
		}
		data := w.mem[h.off+bufferHeaderSize : h.off+bufferHeaderSize+capv]
		for j, x := range data {
			if x != h.sig+byte(j) {
				fail("%s: thread %d holds slot %d but payload byte %d changed (%#x, wrote %#x)", where, tid, h.off, j, x, h.sig+byte(j))
				return
			}
		}
	}
	take := func(tid int, b *bufferSlice, where string) {
		off := b.offsetInShm
		ci := classOf(off)
		if ci < 0 {
			fail("%s: thread %d got a buffer at offset %d outside every class region", where, tid, off)
			return
		}
		l := w.views[0].lists[ci]
		stride := *l.capPerBuffer + bufferHeaderSize
		if (off-l.bufferRegionOffsetInShm)%stride != 0 {
			fail("%s: thread %d got offset %d, not a slot boundary of class %d", where, tid, off, ci)
			return
		}
		if b.cap != *l.capPerBuffer || len(b.data) != int(b.cap) {
			fail("%s: thread %d got a buffer with cap %d / len(data) %d in class %d (capacity %d)", where, tid, b.cap, len(b.data), ci, *l.capPerBuffer)
			return
		}
		if o, dup := held[off]; dup {
			fail("%s: slot %d handed to thread %d while thread %d still holds it", where, off, tid, o.owner)
			return
		}
		h := &heldBuf{b: b, off: off, class: ci, sig: sigSeq, owner: tid}
		sigSeq += 17
		// the holder fills the payload and the header fields a writer would set
		b.writeIndex, b.readIndex = 0, 0
		for j := 0; j < int(b.cap); j++ {
			b.data[j] = h.sig + byte(j)
		}
		b.writeIndex = int(b.cap)
		b.update()
		held[off] = h
		perThread[tid] = append(perThread[tid], h)
	}
	drop := func(tid, idx int) *heldBuf {
		h := perThread[tid][idx]
		perThread[tid] = append(perThread[tid][:idx:idx], perThread[tid][idx+1:]...)
		delete(held, h.off)
		for _, o := range perThread[tid] {
			if o.next == h {
				// the predecessor keeps pointing at a buffer that is being given back: cut the link first, as a writer that
				// trims a message would
				o.next = nil
				bufferHeader(w.mem[o.off : o.off+bufferHeaderSize]).clearFlag()
				bufferHeader(w.mem[o.off : o.off+bufferHeaderSize]).setInUsed()
			}
		}
		if h.next != nil {
			// giving back only the first part of a linked message: the holder cuts the link (it still owns the rest)
			bufferHeader(w.mem[h.off : h.off+bufferHeaderSize]).clearFlag()
			bufferHeader(w.mem[h.off : h.off+bufferHeaderSize]).setInUsed()
			h.next = nil
		}
		return h
	}
	obs := &schedObs{}
	nontrivial := false
	obs.onSwitch = func(from, to int, pre bool) {
		if !pre || from >= len(inOp) || inOp[from] == 0 {
			return
		}
		for t, v := range inOp {
			if t != from && v != 0 && (v == inOp[from] || v < 0 || inOp[from] < 0) {
				nontrivial = true
			}
		}
	}
	sc := vsched.New(c.Sched.picker(obs))
	allocFailed := false
	for ti := range c.Threads {
		tid := ti
		th := c.Threads[ti]
		bm := w.views[th.View%2]
		sc.Spawn(fmt.Sprintf("T%d", tid), func() {
			for oi, op := range th.Ops {
				if stop {
					return
				}
				where := fmt.Sprintf("thread %d op %d (%s)", tid, oi, op.K)
				switch op.K {
				case "pop":
					ci := op.C % len(bm.lists)
					inOp[tid] = ci + 1
					b, err := bm.lists[ci].pop()
					inOp[tid] = 0
					if err == nil {
						take(tid, b, where)
					} else {
						allocFailed = true
					}
				case "alloc":
					inOp[tid] = -1
					b, err := bm.allocShmBuffer(uint32(op.N))
					inOp[tid] = 0
					if err == nil {
						if b.cap < uint32(op.N) {
							fail("%s: asked for %d bytes, got a buffer of capacity %d", where, op.N, b.cap)
						}
						take(tid, b, where)
					} else {
						allocFailed = true
					}
				case "allocN":
					sl := newSliceList()
					inOp[tid] = -1
					got := bm.allocShmBuffers(sl, uint32(op.N))
					inOp[tid] = 0
					sum := int64(0)
					for s := sl.front(); s != nil; {
						next := s.nextSlice
						s.nextSlice = nil
						sum += int64(s.cap)
						take(tid, s, where)
						s = next
					}
					if sum != got {
						fail("%s: allocShmBuffers reports %d bytes, the slices it handed out hold %d", where, got, sum)
					}
					if got < int64(op.N) {
						allocFailed = true
					}
				case "verify":
					if len(perThread[tid]) > 0 {
						verifyHeld(tid, perThread[tid][op.C%len(perThread[tid])], where)
					}
				case "link":
					// what a writer does with a multi-slice message: the held buffer's header points at another held buffer
					if n := len(perThread[tid]); n >= 2 {
						a, b := perThread[tid][op.C%n], perThread[tid][op.N%n]
						linkedFrom := false
						for _, o := range perThread[tid] {
							if o.next == a {
								linkedFrom = true
							}
						}
						if a != b && a.next == nil && b.next == nil && !linkedFrom {
							a.next = b
							a.b.nextSlice = b.b
							a.b.update()
							a.b.nextSlice = nil
							r.Label("held-chain")
						}
					}
				case "free":
					if len(perThread[tid]) > 0 {
						idx := op.C % len(perThread[tid])
						verifyHeld(tid, perThread[tid][idx], where)
						h := drop(tid, idx)
						inOp[tid] = h.class + 1
						bm.recycleBuffer(h.b)
						inOp[tid] = 0
					}
				case "freeChain":
					n := op.N
					if n > len(perThread[tid]) {
						n = len(perThread[tid])
					}
					if n >= 1 {
						var chain []*heldBuf
						for k := 0; k < n; k++ {
							verifyHeld(tid, perThread[tid][0], where)
							chain = append(chain, drop(tid, 0))
						}
						// link them the way a flushed multi-slice message is linked
						for k := 0; k+1 < len(chain); k++ {
							chain[k].b.nextSlice = chain[k+1].b
						}
						for _, h := range chain {
							h.b.update()
						}
						for k := 0; k+1 < len(chain); k++ {
							chain[k].b.nextSlice = nil
						}
						inOp[tid] = -1
						bm.recycleBuffers(chain[0].b)
						inOp[tid] = 0
						r.Label("recycle-chain")
					}
				}
				checkStep(where)
			}
		})
	}
	res := sc.Run(200000)
	r.Count("sched_steps", sc.Steps)
	aba := vatomic.ABAEvents
	tainted := aba > 0
	if tainted {
		r.Label("aba-head-cas-fired")
	}
	if allocFailed {
		r.Label("failed-allocation")
	}
	if nontrivial {
		r.Label("preempted-inside-concurrent-op")
	}
	report := func(msg string) {
		if tainted && !c.JudgeABA {
			r.Exclude("aba-head-cas")
			return
		}
		if tainted {
			r.ViolSig("aba-head-cas", "%s\n(ABA on a free-list head fired %d time(s) in this run, last at %s)\nlast scheduling points: %v", msg, aba, vatomic.ABALast, sc.Tail(24))
			return
		}
		r.Violf("%s\nlast scheduling points: %v", msg, sc.Tail(24))
	}
	if viol != "" {
		report(viol)
		return
	}
	if res.Err != "" {
		report("run did not complete: " + res.Err)
		return
	}
	if !res.Done {
		report(fmt.Sprintf("threads blocked for ever inside lock-free allocator operations: %v", res.Blocked))
		return
	}
	if judge == "C01" {
		for tid, hs := range perThread {
			for _, h := range hs {
				verifyHeld(tid, h, "end of run")
			}
		}
		if viol != "" {
			report(viol)
			return
		}
		if nontrivial {
			r.NonTrivial()
		}
		return
	}
	// C02: give everything back (plain calls, no scheduler active) and demand the full capacity, well-formed chain
	for tid := range perThread {
		for len(perThread[tid]) > 0 {
			h := drop(tid, 0)
			w.views[tid%2].recycleBuffer(h.b)
		}
	}
	for i, l := range w.views[1].lists {
		if *l.size != int32(*l.cap) {
			report(fmt.Sprintf("after every buffer was recycled class %d offers %d of %d slots", i, *l.size, *l.cap))
			return
		}
		n, msg := walkFreeChain(l)
		if msg != "" || n != int(*l.cap) {
			report(fmt.Sprintf("after every buffer was recycled the free chain of class %d is broken: %s (%d of %d slots reachable)", i, msg, n, *l.cap))
			return
		}
	}
	if allocFailed || r.labels["recycle-chain"] {
		if obs.preemptions > 0 {
			r.NonTrivial()
		}
	}
}

const allocGenText = "generated programs: 1-2 size classes x 1-6 slots, 2-4 threads on the creator view and the mapped peer view, 1-8 ops each from pop/allocShmBuffer/allocShmBuffers/verify/recycleBuffer/recycleBuffers(chain); " +
	"generated schedule (PCT depth<=3, preemption list, random walk) over the real code with a scheduling point before every statement and atomic; runs in which the known head-ABA (D1) fired are excluded and counted; "

func TestVerifC01Owners(t *testing.T) {
	runCheck(t, checkDef[allocCase]{name: "TestVerifC01Owners", replayTries: 3,
		rule: allocGenText + "non-trivial = a thread was pre-empted inside pop/push while another thread was inside an operation on the same list; distinct by case hash",
		assumptions: []string{"sequentially consistent execution at statement granularity (weak-memory reorderings are not explored)",
			"two manager views of one byte slice in one process stand in for two processes"},
		gen: genAllocCase, run: func(c allocCase, r *runCtx) { allocRun(c, r, "C01") }})
}

func TestVerifC02Conservation(t *testing.T) {
	runCheck(t, checkDef[allocCase]{name: "TestVerifC02Conservation", replayTries: 3,
		rule: allocGenText + "non-trivial = the run contained a failed allocation or a chain recycle, and at least one pre-emptive switch; distinct by case hash",
		assumptions: []string{"sequentially consistent execution at statement granularity (weak-memory reorderings are not explored)",
			"two manager views of one byte slice in one process stand in for two processes"},
		gen: genAllocCase, run: func(c allocCase, r *runCtx) { allocRun(c, r, "C02") }})
}

// d1ProbeCase is the minimal history of known finding D1 (ABA on the free-list head): thread A reads head=X and X.next=Y and is
// pre-empted before its CAS; thread B pops X and Y, pushes X back and cycles the other slots until head==X again with X.next != Y.
func d1ProbeCase(k int) allocCase {
	return allocCase{
		Classes: []allocClass{{Cap: 8, Slots: 4}},
		Threads: []allocThread{
			{View: 0, Ops: []allocOp{{K: "pop"}}},
			{View: 1, Ops: []allocOp{{K: "pop"}, {K: "pop"}, {K: "free", C: 0}, {K: "pop"}, {K: "free", C: 1}, {K: "pop"}, {K: "free", C: 1}}},
		},
		Sched:    schedPlan{Kind: "preempt", Preempt: [][2]int{{k, 1}}},
		JudgeABA: true,
	}
}

// d1ProbeCaseOwners: the same ABA leading to two owners. B holds S1 linked to S2 (a two-slice message being written) when A's
// stale CAS publishes S1 as head; the next pop (thread C) is handed S1 although B still holds it.
func d1ProbeCaseOwners(k int) allocCase {
	return allocCase{
		Classes: []allocClass{{Cap: 8, Slots: 6}},
		Threads: []allocThread{
			{View: 0, Ops: []allocOp{{K: "pop"}}},
			{View: 1, Ops: []allocOp{{K: "pop"}, {K: "pop"}, {K: "pop"}, {K: "link", C: 1, N: 2}, {K: "free", C: 0},
				{K: "pop"}, {K: "free", C: 2}, {K: "pop"}, {K: "free", C: 2}, {K: "pop"}, {K: "free", C: 2}}},
			{View: 0, Ops: []allocOp{{K: "pop"}}},
		},
		Sched:    schedPlan{Kind: "preempt", Preempt: [][2]int{{k, 1}}},
		JudgeABA: true,
	}
}

// TestVerifProbeD1Find prints the pre-emption steps at which the D1 history violates C01/C02 (maintenance helper, not a check).
func TestVerifProbeD1Find(t *testing.T) {
	for _, judge := range []string{"C01", "C02"} {
		for k := 1; k < 60; k++ {
			r := newRunCtx()
			pc := d1ProbeCase(k)
			if judge == "C01" {
				pc = d1ProbeCaseOwners(k)
			}
			allocRun(pc, r, judge)
			if r.viol != "" {
				b, _ := json.Marshal(pc)
				fmt.Printf("PROBE %s k=%d sig=%s %s\nCASE %s\n", judge, k, r.sig, strings.SplitN(r.viol, "\n", 2)[0], b)
			}
		}
	}
}
