//go:build verif

package shmipc

// C15, concurrent part: several caller goroutines share one SessionManager (one session, a small pool) and run
// GetStream / request / response / PutBack round trips against the in-process echo Listener. The schedule is the runtime's;
// judged are facts that hold under every schedule: nobody obtains a stream somebody else still holds, every response is the
// echo of exactly the request sent on that stream, no call panics or stalls, and afterwards only pooled streams are active.

import (
	"encoding/binary"
	"fmt"
	"runtime"
	"runtime/debug"
	"sync"
	"sync/atomic"
	"testing"
	"time"

	"pgregory.net/rapid"
)

type ccCaller struct {
	Rounds int    `json:"rounds"`
	Sizes  []int  `json:"sizes"` // request sizes, cycled
	Read   string `json:"read"`  // whole (ReadBytes all, release) | pinned (ReadBytes piece by piece, no release before PutBack) | copy (Stream.Read)
	Piece  int    `json:"piece,omitempty"`
	// every CloseEvery-th round the caller closes the stream instead of giving it back (0 = never)
	CloseEvery int `json:"close_every,omitempty"`
}

type ccCase struct {
	MemFd     bool       `json:"memfd"`
	PoolCap   int        `json:"pool_cap"`
	SliceSize uint32     `json:"slice_size"` // one size class: small slices make a response span many of them
	Procs     int        `json:"procs"`
	Callers   []ccCaller `json:"callers"`
}

func genCcCase(t *rapid.T) ccCase {
	c := ccCase{MemFd: rapid.Bool().Draw(t, "memfd"), PoolCap: rapid.IntRange(1, 4).Draw(t, "pool_cap"),
		SliceSize: rapid.SampledFrom([]uint32{256, 1024, 16384}).Draw(t, "slice"), Procs: rapid.SampledFrom([]int{1, 2, 4, 8}).Draw(t, "procs")}
	n := rapid.IntRange(2, 5).Draw(t, "ncallers")
	for i := 0; i < n; i++ {
		cl := ccCaller{Rounds: rapid.IntRange(5, 30).Draw(t, "rounds"), Read: rapid.SampledFrom([]string{"whole", "pinned", "pinned", "copy"}).Draw(t, "read"),
			Piece: rapid.SampledFrom([]int{100, 256, 1000, 5000}).Draw(t, "piece")}
		k := rapid.IntRange(1, 3).Draw(t, "nsizes")
		for j := 0; j < k; j++ {
			cl.Sizes = append(cl.Sizes, rapid.SampledFrom([]int{16, 24, 300, 4000, 30000, 120000}).Draw(t, "size"))
		}
		if rapid.IntRange(0, 3).Draw(t, "closer") == 0 {
			cl.CloseEvery = rapid.IntRange(2, 5).Draw(t, "close_every")
		}
		c.Callers = append(c.Callers, cl)
	}
	return c
}

const ccStall = 30 * time.Second

func ccRun(c ccCase, r *runCtx) {
	old := runtime.GOMAXPROCS(c.Procs)
	defer runtime.GOMAXPROCS(old)
	es := newEchoServer()
	defer es.close()
	conf := smConfigFor(es, 1, c.PoolCap, c.MemFd)
	conf.Config.BufferSliceSizes = []*SizePercentPair{{Size: c.SliceSize, Percent: 100}}
	sm, err := NewSessionManager(conf)
	if err != nil {
		harnessFail("NewSessionManager: %v", err)
	}
	defer closeSM(sm)
	var mu sync.Mutex
	holder := map[*Stream]int{}
	var viol atomic.Value
	fail := func(format string, a ...interface{}) { viol.CompareAndSwap(nil, fmt.Sprintf(format, a...)) }
	var reused int32
	seen := map[*Stream]bool{}
	var wg sync.WaitGroup
	for ci := range c.Callers {
		ci := ci
		cl := c.Callers[ci]
		wg.Add(1)
		go func() {
			defer wg.Done()
			debug.SetPanicOnFault(true)
			for round := 0; round < cl.Rounds && viol.Load() == nil; round++ {
				func() {
					defer func() {
						if p := recover(); p != nil {
							fail("caller %d round %d: panic in a call on a stream obtained from the pool: %v\n%s", ci, round, p, trimStack(debug.Stack()))
						}
					}()
					st, err := sm.GetStream()
					if err != nil {
						fail("caller %d round %d: GetStream on a healthy manager: %v", ci, round, err)
						return
					}
					mu.Lock()
					if other, held := holder[st]; held {
						mu.Unlock()
						fail("caller %d round %d: GetStream handed out a stream that caller %d still holds", ci, round, other)
						return
					}
					holder[st] = ci
					if seen[st] {
						atomic.AddInt32(&reused, 1)
					}
					seen[st] = true
					mu.Unlock()
					release := func() {
						mu.Lock()
						delete(holder, st)
						mu.Unlock()
					}
					if !st.IsOpen() || st.session.IsClosed() {
						release()
						fail("caller %d round %d: GetStream returned a stream that is not open or whose session is closed", ci, round)
						return
					}
					size := cl.Sizes[round%len(cl.Sizes)]
					req := keyedBytes(uint32(1000+ci), round*7, size)
					binary.BigEndian.PutUint64(req, uint64(ci+1)<<48|uint64(round))
					if _, err := st.BufferWriter().WriteBytes(req); err != nil {
						release()
						fail("caller %d round %d: WriteBytes: %v", ci, round, err)
						return
					}
					if err := st.Flush(false); err != nil {
						release()
						fail("caller %d round %d: Flush on a stream just obtained: %v", ci, round, err)
						return
					}
					st.SetReadDeadline(time.Now().Add(ccStall))
					var got []byte
					var rerr error
					switch cl.Read {
					case "whole":
						var b []byte
						b, rerr = st.BufferReader().ReadBytes(size)
						got = append(got, b...)
						st.BufferReader().ReleasePreviousRead()
					case "pinned":
						// results stay pinned until the stream goes back (PutBack releases them)
						for len(got) < size && rerr == nil {
							n := cl.Piece
							if n > size-len(got) {
								n = size - len(got)
							}
							var b []byte
							b, rerr = st.BufferReader().ReadBytes(n)
							got = append(got, b...)
						}
					default:
						buf := make([]byte, cl.Piece)
						for len(got) < size && rerr == nil {
							lim := len(buf)
							if lim > size-len(got) {
								lim = size - len(got)
							}
							var n int
							n, rerr = st.Read(buf[:lim])
							got = append(got, buf[:n]...)
						}
					}
					if rerr != nil {
						release()
						fail("caller %d round %d: reading the %d byte echo of its request failed after %d bytes: %v", ci, round, size, len(got), rerr)
						return
					}
					if string(got) != string(req) {
						d := 0
						for d < len(got) && d < len(req) && got[d] == req[d] {
							d++
						}
						release()
						fail("caller %d round %d: the response is not the echo of this request (%d bytes, first difference at %d; first 8 bytes %x, sent %x): bytes of another use of the stream", ci, round, size, d, got[:8], req[:8])
						return
					}
					release()
					if cl.CloseEvery > 0 && round%cl.CloseEvery == cl.CloseEvery-1 {
						st.Close()
					} else {
						sm.PutBack(st)
					}
				}()
			}
		}()
	}
	done := make(chan struct{})
	go func() { wg.Wait(); close(done) }()
	select {
	case <-done:
	case <-time.After(ccStall + 30*time.Second):
		r.Violf("the callers did not finish: a call on a pooled stream never returned")
		return
	}
	if v := viol.Load(); v != nil {
		r.Violf("%s", v.(string))
		return
	}
	// afterwards only the streams kept in the pool are active
	pool := sm.pools[0]
	sess := pool.Session()
	ok := waitUntil(5*time.Second, func() bool {
		pool.Lock()
		pooled := int(pool.tail - pool.head)
		pool.Unlock()
		return sess.GetActiveStreamCount() == pooled
	})
	if !ok {
		pool.Lock()
		pooled := int(pool.tail - pool.head)
		pool.Unlock()
		r.Violf("all callers gave their streams back or closed them: the session counts %d active streams, the pool keeps %d", sess.GetActiveStreamCount(), pooled)
		return
	}
	r.Label(fmt.Sprintf("callers=%d", len(c.Callers)))
	r.Label(fmt.Sprintf("procs=%d", c.Procs))
	if atomic.LoadInt32(&reused) > 0 {
		r.Label("stream-reused-by-another-round")
		r.NonTrivial()
	}
}

func TestVerifC15Concurrent(t *testing.T) {
	runCheck(t, checkDef[ccCase]{name: "TestVerifC15Concurrent", lastCase: true,
		rule: "2-5 caller goroutines on one SessionManager (one session, pool capacity 1-4, one size class of 256 B - 16 KiB so that responses span many slices), each running 5-30 GetStream / request (16 B - 120 KB, tagged with caller and round) / echo / PutBack-or-Close rounds, reading the echo whole, piecewise with pinned results, or by copying; GOMAXPROCS 1-8; " +
			"oracle: no stream is handed out while another caller holds it, every stream obtained is open on a live session, every response is exactly the echo of the request sent on that stream, no call panics or stalls for 30 s, afterwards the session counts exactly the pooled streams as active; " +
			"non-trivial = a stream object was handed out a second time; distinct by case hash",
		assumptions: []string{"free-running part: the schedule is the Go runtime's; only schedule-independent facts are judged"},
		gen:         genCcCase, run: ccRun})
}
