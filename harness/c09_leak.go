//go:build verif

package shmipc

// C09 - all shared memory comes back once streams are finished (engine E2 histories, DESIGN.md 5/C09).

import (
	"fmt"
	"sync/atomic"
	"testing"
	"time"

	"pgregory.net/rapid"
)

type leakOp struct {
	K    string `json:"k"`
	I    int    `json:"i,omitempty"` // stream index
	E    int    `json:"e,omitempty"` // end: 0 client, 1 server
	N    int    `json:"n,omitempty"`
	Keep []int  `json:"keep,omitempty"`
}

type leakCase struct {
	Cfg      pairCfg  `json:"cfg"`
	NStreams int      `json:"nstreams"`
	CB       []bool   `json:"cb,omitempty"` // client end of stream i in callback mode, installed right after OpenStream (OnData consumes everything)
	Ops      []leakOp `json:"ops"`
	NoClose  bool     `json:"no_close,omitempty"` // variant: nothing is closed; everything is read and released instead
}

func genLeakCase(t *rapid.T) leakCase {
	c := leakCase{Cfg: defaultPairCfg}
	if rapid.IntRange(0, 4).Draw(t, "smallq") == 0 {
		c.Cfg.QueueCap = uint32(rapid.IntRange(1, 3).Draw(t, "qcap"))
	}
	c.NStreams = rapid.IntRange(1, 4).Draw(t, "nstreams")
	for i := 0; i < c.NStreams; i++ {
		c.CB = append(c.CB, rapid.IntRange(0, 4).Draw(t, "cb") == 0)
	}
	c.NoClose = rapid.IntRange(0, 5).Draw(t, "noclose") == 0
	caps := []uint32{64, 256, 1024, 65536}
	nops := rapid.IntRange(3, 40).Draw(t, "nops")
	kinds := []string{"write", "write", "write", "flush", "flush", "flush", "read", "read", "release", "close", "close", "hog", "unhog", "reuse", "poolput", "qfull"}
	if c.NoClose {
		kinds = []string{"write", "write", "flush", "flush", "read", "read", "release", "hog", "unhog", "reuse"}
	}
	for len(c.Ops) < nops {
		op := leakOp{K: rapid.SampledFrom(kinds).Draw(t, "k"), I: rapid.IntRange(0, c.NStreams-1).Draw(t, "i"), E: rapid.IntRange(0, 1).Draw(t, "e")}
		switch op.K {
		case "write":
			op.N = genSizeFor(t, caps, "n")
			if op.N <= 0 {
				op.N = 1
			}
			if op.N > 200000 {
				op.N = 200000
			}
		case "read":
			op.N = rapid.SampledFrom([]int{1, 3, 64, 65, 300, 1 << 20}).Draw(t, "n")
		case "hog":
			op.Keep = make([]int, len(caps))
			for i := range op.Keep {
				op.Keep[i] = rapid.IntRange(0, 3).Draw(t, "keep")
			}
		case "qfull":
			if c.Cfg.QueueCap > 3 {
				continue
			}
		}
		c.Ops = append(c.Ops, op)
	}
	return c
}

type leakCB struct {
	consumed int64
	st       *Stream
}

func (l *leakCB) OnData(reader BufferReader) {
	n := reader.Len()
	if n > 0 {
		reader.ReadBytes(n)
		reader.ReleasePreviousRead()
		atomic.AddInt64(&l.consumed, int64(n))
	}
}
func (l *leakCB) OnLocalClose()  {}
func (l *leakCB) OnRemoteClose() {}

func leakRun(c leakCase, r *runCtx) {
	p := getPair(c.Cfg, r)
	type endT struct {
		st       *Stream
		written  int
		flushed  int // successfully flushed bytes this end wrote
		consumed int // bytes this end read
		closed   bool
		pinned   bool
	}
	streams := make([][2]*endT, c.NStreams)
	cbs := map[int]*leakCB{}
	for i := range streams {
		streams[i] = [2]*endT{{}, {}}
		st, err := p.c.OpenStream()
		if err != nil {
			harnessFail("OpenStream: %v", err)
		}
		streams[i][0].st = st
		if c.CB[i] {
			cb := &leakCB{st: st}
			cbs[i] = cb
			st.SetCallbacks(cb)
		}
	}
	idIndex := map[uint32]int{}
	for i := range streams {
		idIndex[streams[i][0].st.StreamID()] = i
	}
	var pool *streamPool
	// the server end surfaces after the first successful client flush
	acceptPending := func(wait time.Duration) {
		deadline := time.Now().Add(wait)
		for {
			select {
			case s := <-p.s.acceptCh:
				i, ok := idIndex[s.StreamID()]
				if !ok || streams[i][1].st != nil {
					// stream of an earlier case, or re-created by late data after the server end was closed: close it like an application would
					s.Close()
					r.Count("ghost_stream_closed", 1)
					continue
				}
				streams[i][1].st = s
				continue
			default:
			}
			if time.Now().After(deadline) {
				return
			}
			time.Sleep(50 * time.Microsecond)
		}
	}
	need := func(i, e int) *endT {
		en := streams[i][e]
		if en.st == nil && e == 1 && streams[i][0].flushed > 0 {
			acceptPending(20 * time.Millisecond)
		}
		if en.st == nil {
			return nil
		}
		return en
	}
	qfullUsed := false
	for oi, op := range c.Ops {
		switch op.K {
		case "hog":
			p.hogTo(op.Keep)
			r.Label("pressure")
			continue
		case "unhog":
			p.unhog()
			continue
		}
		en := need(op.I, op.E)
		if en == nil {
			continue
		}
		peer := streams[op.I][1-op.E]
		key := uint32(op.I*2 + op.E + 1)
		switch op.K {
		case "write":
			if c.CB[op.I] && op.E == 0 && false {
				continue
			}
			en.st.BufferWriter().WriteBytes(keyedBytes(key, en.written, op.N))
			en.written += op.N
			if en.closed {
				r.Label("write-on-closed-stream")
			}
		case "flush":
			pend := en.written - en.flushed
			err := en.st.Flush(false)
			if err == nil {
				en.flushed = en.written
			} else {
				// the bytes are gone (recycled by the error path); the model forgets them
				en.written = en.flushed
				if pend > 0 {
					r.Label("flush-error:" + err.Error())
				}
			}
			if pend > 0 && en.st.inFallbackState {
				r.Label("fallback-stream")
			}
		case "read":
			if c.CB[op.I] && op.E == 0 {
				continue // callback mode: the application does not read outside OnData
			}
			if en.closed || peer.closed {
				continue
			}
			av := peer.flushed - en.consumed
			n := op.N
			if n > av {
				n = av
			}
			if n <= 0 {
				continue
			}
			en.st.SetReadDeadline(time.Now().Add(e2Stall))
			got, err := en.st.BufferReader().ReadBytes(n)
			if err != nil {
				qs := func(s *Session) string {
					return fmt.Sprintf("recvQ=%d flag=%d closed=%v streams=%d", s.queueManager.recvQueue.size(), *s.queueManager.recvQueue.workingFlag, s.IsClosed(), s.GetActiveStreamCount())
				}
				r.Violf("op %d: stream %d end %d: ReadBytes(%d) of bytes flushed by the peer failed: %v\n(reader: state %d, buffered %d, pending %d, fallback=%v; peer: state %d fallback=%v; client session %s; server session %s)",
					oi, op.I, op.E, n, err, en.st.getStreamState(), en.st.recvBuf.Len(), len(en.st.pendingData.unread), en.st.inFallbackState,
					peer.st.getStreamState(), peer.st.inFallbackState, qs(p.c), qs(p.s))
				return
			}
			for j := range got {
				if got[j] != keyed(uint32(op.I*2+(1-op.E)+1), en.consumed+j) {
					r.Violf("op %d: stream %d end %d: byte %d differs", oi, op.I, op.E, en.consumed+j)
					return
				}
			}
			en.consumed += n
			en.pinned = true
		case "release":
			if c.CB[op.I] && op.E == 0 {
				continue
			}
			en.st.BufferReader().ReleasePreviousRead()
			en.pinned = false
		case "reuse":
			if c.CB[op.I] && op.E == 0 {
				continue
			}
			if en.written == en.flushed && !en.closed {
				en.st.ReleaseReadAndReuse()
				en.pinned = false
				r.Label("release-and-reuse")
			}
		case "close":
			if !en.closed {
				if peer.flushed > en.consumed {
					r.Label("close-with-undelivered-or-unread-data")
				}
				if en.written > en.flushed {
					r.Label("close-with-unflushed-data")
				}
				if en.pinned {
					r.Label("close-with-pinned-results")
				}
			}
			en.st.Close()
			en.closed = true
			if c.CB[op.I] && op.E == 0 {
				// a Close issued while OnData runs is finished by the callback goroutine; the history goes on using the
				// stream's writer from this goroutine, which is only meaningful once that has happened (a writer racing the
				// deferred clean-up is outside the histories of this property; see DESIGN.md 12)
				en.st.asyncGoroutineWg.Wait()
			}
		case "poolput":
			// what SessionManager.PutBack does with a client stream: reset + reuse, or close
			if op.E != 0 || en.closed || c.CB[op.I] {
				continue
			}
			// an application puts a stream back when its exchange is over: with written but unflushed bytes ReleaseReadAndReuse
			// would swap them into the read buffer (and a later Flush has nothing to send) - not a history the property is about
			if en.written != en.flushed {
				continue
			}
			if pool == nil {
				pool = newStreamPool(2)
				pool.session.Store(p.c)
			}
			en.st.pool = pool
			before := p.c.GetActiveStreamCount()
			pool.putOrCloseStream(en.st)
			if !en.st.IsOpen() {
				en.closed = true
				r.Label("pool-closed-the-stream")
			} else {
				// taken out again right away (the history keeps using it)
				if got := pool.pop(); got != en.st {
					r.Violf("op %d: pool returned a different stream", oi)
					return
				}
				r.Label("pool-kept-the-stream")
			}
			_ = before
		case "qfull":
			// the peer stops consuming (its working flag stays set, so no wake-up is sent): the next flushes fill the queue and fail
			if qfullUsed || en.closed {
				continue
			}
			qfullUsed = true
			q := en.st.session.queueManager.sendQueue
			atomic.StoreUint32(q.workingFlag, 1)
			fails := 0
			for k := 0; k < int(c.Cfg.QueueCap)+1; k++ {
				en.st.BufferWriter().WriteBytes(keyedBytes(key, en.written, 10))
				en.written += 10
				if err := en.st.Flush(false); err != nil {
					en.written = en.flushed
					fails++
					if err == ErrQueueFull {
						r.Label("flush-failed-queue-full")
					}
				} else {
					en.flushed = en.written
				}
			}
			// the peer resumes: clear the flag and wake it
			atomic.StoreUint32(q.workingFlag, 0)
			en.st.session.wakeUpPeer()
		}
	}
	// ---- end of history: finish every stream ----
	p.unhog()
	acceptPending(2 * time.Millisecond)
	if c.NoClose {
		r.Label("variant-read-and-release-without-close")
		for i := range streams {
			for e := 0; e < 2; e++ {
				en := streams[i][e]
				if en.st == nil {
					continue
				}
				if err := en.st.Flush(false); err == nil {
					en.flushed = en.written
				}
			}
		}
		acceptPending(5 * time.Millisecond)
		for i := range streams {
			for e := 0; e < 2; e++ {
				en, peer := streams[i][e], streams[i][1-e]
				if en.st == nil {
					if e == 1 && peer.flushed > 0 {
						acceptPending(e2Stall)
						if streams[i][1].st == nil {
							r.Violf("stream %d: client flushed %d bytes, server never saw the stream", i, peer.flushed)
							return
						}
						en = streams[i][e]
					} else {
						continue
					}
				}
				if c.CB[i] && e == 0 {
					if !waitUntil(e2Stall, func() bool { return atomic.LoadInt64(&cbs[i].consumed) == int64(peer.flushed) }) {
						r.Violf("stream %d (callback mode): %d bytes flushed, OnData consumed %d", i, peer.flushed, atomic.LoadInt64(&cbs[i].consumed))
						return
					}
					continue
				}
				if av := peer.flushed - en.consumed; av > 0 {
					en.st.SetReadDeadline(time.Now().Add(e2Stall))
					if _, err := en.st.BufferReader().ReadBytes(av); err != nil {
						r.Violf("final read of %d bytes on stream %d end %d: %v", av, i, e, err)
						return
					}
					en.consumed += av
				}
				en.st.BufferReader().ReleasePreviousRead()
			}
		}
		// a slice parked by ReleaseReadAndReuse is legitimately held by an open stream: use it up
		for i := range streams {
			for e := 0; e < 2; e++ {
				en := streams[i][e]
				if en.st == nil {
					continue
				}
				if lb := en.st.sendBuf; lb.sliceList.size() > 0 && lb.Len() == 0 {
					lb.recycle()
				}
			}
		}
		if !waitUntil(2*time.Second, p.allFree) {
			_, _, smm := p.c.GetMetrics()
			r.Violf("every flushed byte was read and released, nothing is unflushed, all streams still open: %d bytes of shared memory remain allocated, free slots per class %v", smm.AllInUsedShareMemoryInBytes, p.freeCounts())
		}
		for i := range streams {
			for e := 0; e < 2; e++ {
				if streams[i][e].st != nil {
					streams[i][e].st.Close()
				}
			}
		}
		if !p.settle(2*time.Second, r) {
			dropPair(p)
		}
		r.NonTrivial()
		return
	}
	for i := range streams {
		for e := 0; e < 2; e++ {
			if en := streams[i][e]; en.st != nil {
				if en.closed && en.written > en.flushed {
					// bytes written into an already closed stream: the application flushes (and gets the error) before it drops the stream
					en.st.Flush(false)
					r.Label("flush-on-closed-stream-at-end")
				}
				en.st.Close()
				en.closed = true
			}
		}
	}
	// server ends that surface only now (their data was still in flight) are closed like any other
	ok := p.settle(3*time.Second, r)
	if !ok {
		_, _, smm := p.c.GetMetrics()
		msg := fmt.Sprintf("every stream was closed on both ends (ghost streams accepted and closed), pressure released: pair not clean (%s); %d bytes of shared memory still allocated, free slots per class %v of %v; active streams client %d server %d",
			p.dirt(), smm.AllInUsedShareMemoryInBytes, p.freeCounts(), leakCaps(p), p.c.GetActiveStreamCount(), p.s.GetActiveStreamCount())
		r.Violf("%s", msg)
		dropPair(p)
		return
	}
	for ci, l := range p.c.bufferManager.lists {
		if n, msg := walkFreeChain(l); msg != "" || n != int(*l.cap) {
			r.Violf("class %d: free chain broken after all streams finished: %s (%d of %d)", ci, msg, n, *l.cap)
			dropPair(p)
			return
		}
	}
	if _, _, smm := p.c.GetMetrics(); smm.AllInUsedShareMemoryInBytes != 0 {
		r.Violf("AllInUsedShareMemoryInBytes = %d after all streams finished", smm.AllInUsedShareMemoryInBytes)
		return
	}
	for l := range r.labels {
		if l != "pressure" {
			r.NonTrivial()
		}
	}
}

func leakCaps(p *pairT) []uint32 {
	var r []uint32
	for _, l := range p.c.bufferManager.lists {
		r = append(r, *l.cap)
	}
	return r
}

func TestVerifC09Leak(t *testing.T) {
	runCheck(t, checkDef[leakCase]{name: "TestVerifC09Leak",
		rule: "histories of 3-40 ops over 1-4 streams of a real session pair: writes of any size, flushes (also on closed and half-closed streams), partial reads, releases, ReleaseReadAndReuse, pool put-back, Close from either end at any point (unread, undelivered, unflushed, pinned data), hog/unhog pressure (allocation failure, socket fallback), queue-full (queue capacity 1-3 with a stalled consumer), sync and callback-mode server ends; " +
			"oracle at the end: all streams closed on both ends (or, in the no-close variant, everything read and released) => every class offers its full capacity, the free chains are complete, AllInUsedShareMemoryInBytes == 0; " +
			"non-trivial = the history went through at least one error/edge path (flush error, close with unread/unflushed/pinned data, fallback, reuse, pool, write on closed stream); distinct by case hash",
		assumptions: []string{"bytes written into a stream that is already closed are flushed (and thereby rejected and recycled) before the stream is abandoned; abandoning them unflushed is not a listed history",
			"streams re-created on the server by data that was in flight when the server end was closed surface through AcceptStream (by design) and are closed by the harness like an application would",
			"reads are only issued for bytes the model says were flushed while both ends were open"},
		gen: genLeakCase, run: leakRun})
}
