//go:build verif

package shmipc

// C18 - the event connection moves bytes exactly once and in order under any kernel IO (engine E3, DESIGN.md 5/C18).

import (
	"encoding/binary"
	"fmt"
	"net"
	"os"
	"sync"
	"sync/atomic"
	"testing"
	"time"

	syscall "golang.org/x/sys/unix"
	"pgregory.net/rapid"
)

type ecWrite struct {
	Sizes []int `json:"sizes"` // one element: write(data); several: writev(data...)
}

type ecCase struct {
	TCP     bool      `json:"tcp"`
	SndBuf  int       `json:"sndbuf"` // 0 = default
	RcvBuf  int       `json:"rcvbuf"`
	Writes  []ecWrite `json:"writes"`
	Consume []int     `json:"consume"`  // per callback invocation (cycled): -1 all, -2 all but one, 0 nothing, k>0 at most k
	PaceUs  []int     `json:"pace_us"`  // per invocation (cycled): the callback sleeps this long
	GapUs   int       `json:"gap_us"`   // the writer sleeps this long between writes
}

func genEcCase(t *rapid.T) ecCase {
	c := ecCase{TCP: rapid.IntRange(0, 3).Draw(t, "tcp") == 0}
	c.SndBuf = rapid.SampledFrom([]int{0, 0, 2048, 4096, 16384, 262144}).Draw(t, "snd")
	c.RcvBuf = rapid.SampledFrom([]int{0, 0, 2048, 4096, 16384, 262144}).Draw(t, "rcv")
	nw := rapid.IntRange(1, 12).Draw(t, "nwrites")
	size := rapid.OneOf(rapid.IntRange(1, 64), rapid.IntRange(1, 4096), rapid.SampledFrom([]int{65535, 65536, 65537, 131072, 300000, 1 << 20, 2 << 20}), rapid.IntRange(1, 200000))
	// the kernel, not the code under test, limits throughput with tiny buffers (TCP window stalls): keep the volume proportionate
	limit := 6 << 20
	minBuf := 1 << 30
	for _, b := range []int{c.SndBuf, c.RcvBuf} {
		if b > 0 && b < minBuf {
			minBuf = b
		}
	}
	if minBuf < 1<<30 {
		limit = 96 * minBuf
		if c.TCP {
			limit = 24 * minBuf
		}
	}
	total := 0
	for i := 0; i < nw; i++ {
		var w ecWrite
		if rapid.IntRange(0, 3).Draw(t, "vec") == 0 {
			n := rapid.SampledFrom([]int{2, 3, 10, 255, 256, 257, 300}).Draw(t, "niov")
			big := rapid.IntRange(0, 2).Draw(t, "bigiov") == 0 && n <= 10
			for k := 0; k < n; k++ {
				if big {
					// an element far larger than the socket buffer is accepted by the kernel in several pieces
					w.Sizes = append(w.Sizes, rapid.SampledFrom([]int{1, 20000, 100000, 300000}).Draw(t, "iov"))
				} else {
					w.Sizes = append(w.Sizes, rapid.IntRange(1, 600).Draw(t, "iov"))
				}
			}
		} else {
			w.Sizes = []int{size.Draw(t, "size")}
		}
		for _, s := range w.Sizes {
			total += s
		}
		if total > limit {
			break
		}
		c.Writes = append(c.Writes, w)
	}
	if len(c.Writes) == 0 {
		c.Writes = []ecWrite{{Sizes: []int{1}}}
	}
	c.Consume = rapid.SliceOfN(rapid.SampledFrom([]int{-1, -1, -2, 0, 1, 7, 8, 100, 5000}), 1, 5).Draw(t, "consume")
	c.PaceUs = rapid.SliceOfN(rapid.SampledFrom([]int{0, 0, 0, 20, 200}), 1, 3).Draw(t, "pace")
	c.GapUs = rapid.SampledFrom([]int{0, 0, 20, 300}).Draw(t, "gap")
	return c
}

type ecRecorder struct {
	mu        sync.Mutex
	c         ecCase
	consumed  int64 // bytes committed so far
	seenUpTo  int64 // highest stream position ever shown to the callback
	calls     int
	problem   string
	finalMode int32 // the writer is done: consume everything
	grew      bool
	shrank    bool
	maxBuf    int
	closed    int32
	nonZeroStartGrow bool
}

func (e *ecRecorder) onEventData(buf []byte, conn eventConn) error {
	e.mu.Lock()
	defer e.mu.Unlock()
	h := conn.(*connEventHandler)
	if len(h.readBuffer) > e.maxBuf {
		if e.maxBuf != 0 {
			e.grew = true
		}
		e.maxBuf = len(h.readBuffer)
	} else if len(h.readBuffer) < e.maxBuf {
		e.shrank = true
		e.maxBuf = len(h.readBuffer)
	}
	// the callback must see exactly the unconsumed tail followed by new bytes: position consumed .. consumed+len(buf)
	for j := range buf {
		if buf[j] != keyed(18, int(e.consumed)+j) {
			if e.problem == "" {
				e.problem = fmt.Sprintf("callback invocation %d: byte %d of the buffer (stream position %d) is %#x, want %#x: the callback does not see the unconsumed bytes followed by the new ones",
					e.calls, j, int(e.consumed)+j, buf[j], keyed(18, int(e.consumed)+j))
			}
			break
		}
	}
	if end := e.consumed + int64(len(buf)); end > e.seenUpTo {
		e.seenUpTo = end
	}
	pol := e.c.Consume[e.calls%len(e.c.Consume)]
	pace := e.c.PaceUs[e.calls%len(e.c.PaceUs)]
	e.calls++
	n := 0
	switch {
	case atomic.LoadInt32(&e.finalMode) == 1 || pol == -1:
		n = len(buf)
	case pol == -2:
		n = len(buf) - 1
	case pol > 0:
		n = pol
		if n > len(buf) {
			n = len(buf)
		}
	}
	if n < 0 {
		n = 0
	}
	conn.commitRead(n)
	e.consumed += int64(n)
	if pace > 0 {
		e.mu.Unlock()
		time.Sleep(time.Duration(pace) * time.Microsecond)
		e.mu.Lock()
	}
	return nil
}
func (e *ecRecorder) onRemoteClose() { atomic.StoreInt32(&e.closed, 1) }
func (e *ecRecorder) onLocalClose()  {}

type nopEventCB struct{}

func (nopEventCB) onEventData(buf []byte, conn eventConn) error { conn.commitRead(len(buf)); return nil }
func (nopEventCB) onRemoteClose()                               {}
func (nopEventCB) onLocalClose()                                {}

func ecSocketPair(c ecCase) (*os.File, *os.File) {
	var a, b *os.File
	if c.TCP {
		ln, err := net.Listen("tcp", "127.0.0.1:0")
		if err != nil {
			harnessFail("listen: %v", err)
		}
		ch := make(chan net.Conn, 1)
		go func() { cc, _ := ln.Accept(); ch <- cc }()
		c1, err := net.Dial("tcp", ln.Addr().String())
		if err != nil {
			harnessFail("dial: %v", err)
		}
		c2 := <-ch
		ln.Close()
		a, _ = c1.(*net.TCPConn).File()
		b, _ = c2.(*net.TCPConn).File()
		c1.Close()
		c2.Close()
	} else {
		fds, err := syscall.Socketpair(syscall.AF_UNIX, syscall.SOCK_STREAM|syscall.SOCK_CLOEXEC, 0)
		if err != nil {
			harnessFail("socketpair: %v", err)
		}
		a, b = os.NewFile(uintptr(fds[0]), "ec-w"), os.NewFile(uintptr(fds[1]), "ec-r")
	}
	if c.SndBuf > 0 {
		syscall.SetsockoptInt(int(a.Fd()), syscall.SOL_SOCKET, syscall.SO_SNDBUF, c.SndBuf)
	}
	if c.RcvBuf > 0 {
		syscall.SetsockoptInt(int(b.Fd()), syscall.SOL_SOCKET, syscall.SO_RCVBUF, c.RcvBuf)
	}
	return a, b
}

func ecRun(c ecCase, r *runCtx) {
	ensureDefaultDispatcherInit()
	wf, rf := ecSocketPair(c)
	d := defaultDispatcher
	wconn := d.newConnection(wf).(*connEventHandler)
	rconn := d.newConnection(rf).(*connEventHandler)
	rec := &ecRecorder{c: c}
	if err := rconn.setCallback(rec); err != nil {
		harnessFail("setCallback: %v", err)
	}
	if err := wconn.setCallback(nopEventCB{}); err != nil {
		harnessFail("setCallback: %v", err)
	}
	defer func() {
		// like the session does: connections are closed on the event loop
		d.post(func() {
			wconn.close()
			rconn.close()
		})
		pokeDispatcher()
	}()
	total := 0
	for _, w := range c.Writes {
		for _, s := range w.Sizes {
			total += s
		}
	}
	werr := make(chan error, 1)
	go func() {
		pos := 0
		for _, w := range c.Writes {
			var err error
			if len(w.Sizes) == 1 {
				err = wconn.write(keyedBytes(18, pos, w.Sizes[0]))
				pos += w.Sizes[0]
			} else {
				var vec [][]byte
				for _, s := range w.Sizes {
					vec = append(vec, keyedBytes(18, pos, s))
					pos += s
				}
				err = wconn.writev(vec...)
			}
			if err != nil {
				werr <- err
				return
			}
			if c.GapUs > 0 {
				time.Sleep(time.Duration(c.GapUs) * time.Microsecond)
			}
		}
		werr <- nil
	}()
	select {
	case err := <-werr:
		if err != nil {
			r.Violf("write of generated data failed: %v", err)
			return
		}
	case <-time.After(e2Stall + 20*time.Second):
		rec.mu.Lock()
		r.Violf("writer still blocked after %v: %d of %d bytes were shown to the reader's callback, %d consumed", e2Stall+20*time.Second, rec.seenUpTo, total, rec.consumed)
		rec.mu.Unlock()
		return
	}
	// the callback is only invoked when bytes arrive: a final one-byte write makes it run once more in consume-all mode
	atomic.StoreInt32(&rec.finalMode, 1)
	if err := wconn.write(keyedBytes(18, total, 1)); err != nil {
		r.Violf("final write failed: %v", err)
		return
	}
	total++
	ok := waitUntil(e2Stall, func() bool {
		rec.mu.Lock()
		defer rec.mu.Unlock()
		return rec.consumed == int64(total) || rec.problem != ""
	})
	rec.mu.Lock()
	defer rec.mu.Unlock()
	if rec.problem != "" {
		r.Violf("%s", rec.problem)
		return
	}
	if !ok {
		r.Violf("%d bytes written, the reader's callback was shown %d and consumed %d after %v (bytes lost or never delivered)", total, rec.seenUpTo, rec.consumed, e2Stall)
		return
	}
	if rec.seenUpTo > int64(total) {
		r.Violf("the callback was shown %d bytes, only %d were written (invented bytes)", rec.seenUpTo, total)
		return
	}
	eagain := total > 2*(c.SndBuf+c.RcvBuf) && c.SndBuf > 0 && c.RcvBuf > 0
	if eagain {
		r.Label("writes-exceed-socket-buffers(EAGAIN)")
	}
	if rec.grew {
		r.Label("read-buffer-grew")
	}
	if rec.shrank {
		r.Label("read-buffer-shrank")
	}
	if eagain || rec.grew || rec.shrank {
		r.NonTrivial()
	}
}

func TestVerifC18EventConn(t *testing.T) {
	runCheck(t, checkDef[ecCase]{name: "TestVerifC18EventConn", lastCase: true,
		rule: "unix and tcp socket pairs with generated SO_SNDBUF/SO_RCVBUF (2 KiB .. 256 KiB), 1-12 writes of 1 B .. 2 MiB through the real connEventHandler.write / writev (2-300 iovecs), reader = real connEventHandler on the real epoll dispatcher with a recording callback whose consumption per invocation is generated (nothing, 1, 7, 8, 100, 5000, all but one, everything) and which is paced by generated sleeps; " +
			"oracle: every callback invocation sees exactly the unconsumed tail followed by new bytes (keyed by stream position), consumed bytes == written bytes after a final consume-all, nothing invented, the writer is never stuck; " +
			"non-trivial = the data exceeded the socket buffers (EAGAIN path), or the read buffer grew or shrank; distinct by case hash",
		assumptions: []string{"one writer at a time on a connection handler (the session serialises writers; that is the second part of this check)"},
		gen:         genEcCase, run: ecRun})
}

// ---------- part 2: concurrent senders of one session never interleave inside an event ----------

type ecSendCase struct {
	SndBuf  int   `json:"sndbuf"`
	Senders []int `json:"senders"` // per goroutine: kind (0 fallback-sized event through waitForSend, 1 wakeUpPeer, 2 hotRestart)
	Count   int   `json:"count"`   // events per sender
	Size    int   `json:"size"`    // payload of the waitForSend events
}

func genEcSendCase(t *rapid.T) ecSendCase {
	c := genEcSendCase0(t)
	// one polling sender at most: two of them race for the working flag and the number of polling events is then not determined
	seen := false
	for i, k := range c.Senders {
		if k == 1 {
			if seen {
				c.Senders[i] = 2
			}
			seen = true
		}
	}
	return c
}

func genEcSendCase0(t *rapid.T) ecSendCase {
	return ecSendCase{
		SndBuf:  rapid.SampledFrom([]int{0, 2048, 4096, 65536}).Draw(t, "snd"),
		Senders: rapid.SliceOfN(rapid.IntRange(0, 2), 2, 6).Draw(t, "senders"),
		Count:   rapid.IntRange(1, 40).Draw(t, "count"),
		Size:    rapid.SampledFrom([]int{1, 100, 5000, 70000}).Draw(t, "size"),
	}
}

func ecSendRun(c ecSendCase, r *runCtx) {
	ensureDefaultDispatcherInit()
	wf, rf := ecSocketPair(ecCase{SndBuf: c.SndBuf, RcvBuf: c.SndBuf})
	defer rf.Close()
	ww := newWireWorld(false)
	// replace the wire world's offline handler by one on the real dispatcher over our socket
	syscall.Close(ww.peerFd)
	ww.h.file.Close()
	h := defaultDispatcher.newConnection(wf).(*connEventHandler)
	s := ww.s
	s.dispatcher = defaultDispatcher
	s.eventConn = h
	if err := h.setCallback(s); err != nil {
		harnessFail("setCallback: %v", err)
	}
	go s.send()
	defer s.Close()
	// raw peer: parse the byte stream into events
	type evt struct {
		typ     eventType
		payload []byte
	}
	var events []evt
	parseErr := make(chan string, 1)
	expect := 0
	for _, k := range c.Senders {
		_ = k
		expect += c.Count
	}
	done := make(chan struct{})
	go func() {
		defer close(done)
		fd := int(rf.Fd())
		readFull := func(b []byte) bool {
			got := 0
			for got < len(b) {
				n, err := syscall.Read(fd, b[got:])
				if err != nil || n <= 0 {
					return false
				}
				got += n
			}
			return true
		}
		for len(events) < expect {
			hdr := make([]byte, headerSize)
			if !readFull(hdr) {
				return
			}
			hh := header(hdr)
			if hh.Magic() != magicNumber || hh.Length() < headerSize || hh.Length() > 1<<20 {
				parseErr <- fmt.Sprintf("event %d: header %x is not a header (magic %#x, length %d): events of concurrent senders interleaved", len(events), hdr, hh.Magic(), hh.Length())
				return
			}
			body := make([]byte, hh.Length()-headerSize)
			if !readFull(body) {
				return
			}
			events = append(events, evt{hh.MsgType(), body})
		}
	}()
	var wg sync.WaitGroup
	for si, kind := range c.Senders {
		si, kind := si, kind
		wg.Add(1)
		go func() {
			defer wg.Done()
			for k := 0; k < c.Count; k++ {
				switch kind {
				case 0:
					var ev fallbackDataEvent
					id := uint32(si*1000 + k + 1)
					ev.encode(len(ev)+c.Size, 3, id, 0)
					data := append(ev[:], keyedBytes(id, 0, c.Size)...)
					if err := s.waitForSend(nil, data); err != nil {
						return
					}
				case 1:
					atomic.StoreUint32(s.queueManager.sendQueue.workingFlag, 0) // so that every call really writes a polling event
					s.wakeUpPeer()
				case 2:
					s.hotRestart(uint64(si*1000+k), typeHotRestart)
				}
			}
		}()
	}
	wg.Wait()
	select {
	case <-done:
	case msg := <-parseErr:
		r.Violf("%s", msg)
		return
	case <-time.After(e2Stall):
		r.Violf("senders finished, the peer parsed only %d of the %d events after %v", len(events), expect, e2Stall)
		return
	}
	select {
	case msg := <-parseErr:
		r.Violf("%s", msg)
		return
	default:
	}
	// every event intact; per sender in order
	last := map[int]int{}
	for i, e := range events {
		switch e.typ {
		case typeFallbackData:
			if len(e.payload) != 8+c.Size {
				r.Violf("event %d: fallback event with %d payload bytes, want %d", i, len(e.payload), 8+c.Size)
				return
			}
			id := binary.BigEndian.Uint32(e.payload[:4])
			for j, b := range e.payload[8:] {
				if b != keyed(id, j) {
					r.Violf("event %d (fallback data of sender %d): payload byte %d corrupted: bytes of another event interleaved", i, id/1000, j)
					return
				}
			}
			si, k := int(id-1)/1000, int(id-1)%1000
			if k < last[si] {
				r.Violf("events of sender %d arrived out of order", si)
				return
			}
			last[si] = k
		case typePolling:
			if len(e.payload) != 0 {
				r.Violf("event %d: polling event with payload", i)
				return
			}
		case typeHotRestart:
			if len(e.payload) != 8 {
				r.Violf("event %d: hot restart event with %d payload bytes", i, len(e.payload))
				return
			}
		default:
			r.Violf("event %d: unexpected type %d", i, e.typ)
			return
		}
	}
	kinds := map[int]bool{}
	for _, k := range c.Senders {
		kinds[k] = true
	}
	if len(kinds) >= 2 {
		r.NonTrivial()
	}
}

func TestVerifC18Senders(t *testing.T) {
	runCheck(t, checkDef[ecSendCase]{name: "TestVerifC18Senders", lastCase: true,
		rule: "2-6 goroutines send concurrently on one hand-wired session over a real connEventHandler with a small socket buffer: fallback-sized events through waitForSend (payload 1..70000, keyed per event), wakeUpPeer polling events, hotRestart events; a raw peer parses the byte stream; " +
			"oracle: every event parses (magic, length), payloads are intact, events of one sender stay in order; non-trivial = at least two different sender kinds (fast path and send-loop path compete); distinct by case hash",
		assumptions: []string{"the peer reads continuously"},
		gen:         genEcSendCase, run: ecSendRun})
}
