//go:build verif

package shmipc

// C12 - handshake yields one shared memory and the lower version, or errors on both ends (engine E4, fault enumeration).

import (
	"sync/atomic"
	"encoding/binary"
	"fmt"
	"net"
	"os"
	"testing"
	"time"

	syscall "golang.org/x/sys/unix"
	"pgregory.net/rapid"
)

const c12Timeout = 300 * time.Millisecond // InitializeTimeout of the real end under test

type hs12Case struct {
	// Kind: "pair" = real client x real server; "fake-client" = real server x scripted client; "fake-server" = real client x scripted server
	Kind    string `json:"kind"`
	MemFd   bool   `json:"memfd"`
	Network string `json:"network"` // unix | tcp
	// scripted peers: perform the genuine exchange up to step Step (exclusive), then Fault there; Step = -1: no fault
	Step  int    `json:"step"`
	// stall (do nothing until the real end timed out, then close) | close | partial (send half of the step's bytes, then stall) |
	// resume (do nothing until the real end timed out, then carry on with the exchange as if nothing had happened)
	Fault string `json:"fault,omitempty"`
	// server version a scripted server announces (2 or 3)
	ServerVer int `json:"server_ver,omitempty"`
	// generated part: extra delay in ms before each step of the scripted peer (0 = none)
	DelayMs int `json:"delay_ms,omitempty"`
	// kind "pair-slow": two genuine ends, of which SlowEnd (server | client) is held up *inside* its own handshake: its k-th log
	// write (k = Step) blocks for longer than its InitializeTimeout (the configuration's LogOutput is the only delay hook the library offers)
	SlowEnd string `json:"slow_end,omitempty"`
}

func connPair(network string) (net.Conn, net.Conn) {
	if network == "unix" {
		return socketPair()
	}
	ln, err := net.Listen("tcp", "127.0.0.1:0")
	if err != nil {
		harnessFail("tcp listen: %v", err)
	}
	defer ln.Close()
	ch := make(chan net.Conn, 1)
	go func() {
		c, _ := ln.Accept()
		ch <- c
	}()
	c, err := net.Dial("tcp", ln.Addr().String())
	if err != nil {
		harnessFail("tcp dial: %v", err)
	}
	return c, <-ch
}

func c12Config(memfd bool) *Config {
	cfg := defaultPairCfg
	cfg.MemFd = memfd
	conf := cfg.config()
	conf.InitializeTimeout = c12Timeout
	return conf
}

// scripted client: the steps a genuine client of the given generation performs
//
//	file (v2):   0 send metadata                                              (no acknowledgement in protocol 2)
//	memfd (v3):  0 send version, 1 recv version, 2 send metadata, 3 recv ack-ready, 4 send descriptors, 5 recv ack
func fakeClientSteps(memfd bool) int {
	if memfd {
		return 6
	}
	return 1
}

// scripted server for a memfd (v3) client: 0 recv version, 1 send version, 2 recv metadata, 3 send ack-ready, 4 recv descriptors, 5 send ack
// for a file (v2) client: 0 recv metadata
func fakeServerSteps(memfd bool) int {
	if memfd {
		return 6
	}
	return 1
}

func c12Cases() []hs12Case {
	var cs []hs12Case
	cs = append(cs, hs12Case{Kind: "pair", MemFd: false, Network: "unix", Step: -1}, hs12Case{Kind: "pair", MemFd: true, Network: "unix", Step: -1},
		hs12Case{Kind: "pair", MemFd: false, Network: "tcp", Step: -1})
	for _, memfd := range []bool{false, true} {
		cs = append(cs, hs12Case{Kind: "fake-client", MemFd: memfd, Network: "unix", Step: -1})
		for st := 0; st < fakeClientSteps(memfd); st++ {
			for _, f := range []string{"stall", "close", "partial", "resume"} {
				cs = append(cs, hs12Case{Kind: "fake-client", MemFd: memfd, Network: "unix", Step: st, Fault: f})
			}
		}
		// the client announces memory of which one half cannot be mapped (the other half can): step = the step that carries it
		for _, f := range []string{"bad-queue", "bad-buffer"} {
			st := 0
			if memfd {
				st = 4
				if f == "bad-buffer" {
					// in one process the server finds the scripted client's own buffer manager under the announced name and never
					// maps the descriptor it received: an unusable buffer descriptor cannot be told apart here
					continue
				}
			}
			cs = append(cs, hs12Case{Kind: "fake-client", MemFd: memfd, Network: "unix", Step: st, Fault: f})
		}
		vers := []int{3}
		if memfd {
			vers = []int{3, 2}
		}
		for _, v := range vers {
			cs = append(cs, hs12Case{Kind: "fake-server", MemFd: memfd, Network: "unix", Step: -1, ServerVer: v})
			for st := 0; st < fakeServerSteps(memfd); st++ {
				for _, f := range []string{"stall", "close", "partial", "resume"} {
					cs = append(cs, hs12Case{Kind: "fake-server", MemFd: memfd, Network: "unix", Step: st, Fault: f, ServerVer: v})
				}
			}
		}
	}
	// a genuine end that is slow itself: the time-out fires while its handshake goroutine is between two steps, not blocked in a read
	for _, end := range []string{"server", "client"} {
		for k := 0; k < 12; k++ {
			cs = append(cs, hs12Case{Kind: "pair-slow", MemFd: true, Network: "unix", Step: k, SlowEnd: end})
		}
	}
	return cs
}

// slowLog blocks at its k-th write
type slowLog struct {
	k    int32
	d    time.Duration
	n    int32
	slow int32
}

func (w *slowLog) Write(b []byte) (int, error) {
	if atomic.AddInt32(&w.n, 1)-1 == w.k {
		atomic.StoreInt32(&w.slow, 1)
		time.Sleep(w.d)
	}
	return len(b), nil
}

// c12RunPairSlow: see hs12Case.SlowEnd. The verdict that does not depend on timing: an end that reported a failed handshake must
// not have completed it on the wire - when the *server* (which sends the last message) fails, the client must fail too.
func c12RunPairSlow(c hs12Case, r *runCtx) {
	oldLevel := level
	level = levelInfo
	defer func() { level = oldLevel }()
	cc, sc := connPair(c.Network)
	cconf := c12Config(c.MemFd)
	cconf.InitializeTimeout = 5 * time.Second
	sconf := *cconf
	w := &slowLog{k: int32(c.Step), d: 900 * time.Millisecond}
	if c.SlowEnd == "server" {
		sconf.InitializeTimeout = 300 * time.Millisecond
		sconf.LogOutput = w
	} else {
		cconf.InitializeTimeout = 300 * time.Millisecond
		cconf.LogOutput = w
	}
	t0 := time.Now()
	client, server, cerr, serr := newPairFromConns(cconf, &sconf, cc, sc)
	el := time.Since(t0)
	defer func() {
		if client != nil {
			client.Close()
		}
		if server != nil {
			server.Close()
		}
		waitPoked(3*time.Second, func() bool {
			return (client == nil || client.queueManager == nil) && (server == nil || server.queueManager == nil)
		})
	}()
	if atomic.LoadInt32(&w.slow) == 1 {
		r.Label("held-up-inside-handshake:" + c.SlowEnd)
	} else {
		r.Label("log-line-not-reached")
	}
	if el > 7*time.Second {
		r.Violf("genuine pair with a %s held up for 900 ms at its log write %d: the handshake calls took %v (time-outs 300 ms / 5 s)", c.SlowEnd, c.Step, el)
		return
	}
	if c.SlowEnd == "server" && serr != nil && cerr == nil {
		r.Violf("genuine pair, the server was held up for 900 ms at its log write %d and reported %q after its 300 ms time-out - but the client's handshake succeeded: the server completed the exchange after it had given up", c.Step, serr)
		return
	}
	if cerr == nil && serr == nil && atomic.LoadInt32(&w.slow) == 1 && el < 250*time.Millisecond {
		r.Violf("the %s was held up for 900 ms inside its handshake, yet both ends returned success after %v", c.SlowEnd, el)
	}
}

type fakePeer struct {
	fd      int
	pm      hsPeerMem
	c       hs12Case
	done    chan struct{}
	sawEOF    bool // the real end closed its side
	release   chan struct{}
	resumed   bool
	metaType  int // scripted server: type and version of the metadata event the real client sent
	metaVer   int
	completed bool // the scripted peer went through the whole exchange, i.e. it was given a complete, successful handshake
}

func (p *fakePeer) send(b []byte, step int) bool {
	if p.c.Step == step {
		switch p.c.Fault {
		case "close":
			syscall.Shutdown(p.fd, syscall.SHUT_RDWR)
			return false
		case "stall":
			<-p.release
			return false
		case "partial":
			if len(b) > 1 {
				syscall.Write(p.fd, b[:len(b)/2])
			}
			<-p.release
			return false
		case "resume":
			<-p.release
			p.resumed = true
		}
	}
	if p.c.DelayMs > 0 {
		time.Sleep(time.Duration(p.c.DelayMs) * time.Millisecond)
	}
	_, err := syscall.Write(p.fd, b)
	return err == nil
}

func (p *fakePeer) recv(n int, step int) ([]byte, bool) {
	if p.c.Step == step {
		switch p.c.Fault {
		case "close":
			syscall.Shutdown(p.fd, syscall.SHUT_RDWR)
			return nil, false
		case "stall", "partial":
			<-p.release
			return nil, false
		case "resume":
			<-p.release
			p.resumed = true
		}
	}
	buf := make([]byte, n)
	got := 0
	for got < n {
		k, err := syscall.Read(p.fd, buf[got:])
		if err != nil || k == 0 {
			p.sawEOF = true
			return nil, false
		}
		got += k
	}
	return buf, true
}

func hdrBytes(t eventType, ver int) []byte {
	b := make([]byte, headerSize)
	header(b).encode(headerSize, uint8(ver), t)
	return b
}

func metaBytes(t eventType, ver int, q, bp string) []byte {
	b := make([]byte, headerSize+2+len(q)+2+len(bp))
	off := headerSize
	binary.BigEndian.PutUint16(b[off:], uint16(len(q)))
	off += 2
	copy(b[off:], q)
	off += len(q)
	binary.BigEndian.PutUint16(b[off:], uint16(len(bp)))
	off += 2
	copy(b[off:], bp)
	header(b).encode(uint32(len(b)), uint8(ver), t)
	return b
}

// runFakeClient speaks the client side of the handshake against a real server.
func (p *fakePeer) runFakeClient(conf *Config) {
	defer close(p.done)
	if !p.c.MemFd {
		q, b := p.pm.qPath, p.pm.bPath
		switch p.c.Fault {
		case "bad-queue":
			q += "_missing"
		case "bad-buffer":
			b += "_missing"
		}
		p.completed = p.send(metaBytes(typeShareMemoryByFilePath, 2, q, b), 0)
		return
	}
	if !p.send(hdrBytes(typeExchangeProtoVersion, 3), 0) {
		return
	}
	if _, ok := p.recv(headerSize, 1); !ok {
		return
	}
	if !p.send(metaBytes(typeShareMemoryByMemfd, 3, p.pm.qPath, p.pm.bPath), 2) {
		return
	}
	if _, ok := p.recv(headerSize, 3); !ok {
		return
	}
	if p.c.Step == 4 {
		switch p.c.Fault {
		case "close":
			syscall.Shutdown(p.fd, syscall.SHUT_RDWR)
			return
		case "resume":
			<-p.release
			p.resumed = true
		case "bad-queue", "bad-buffer":
		default:
			<-p.release
			return
		}
	}
	bfd, qfd := p.pm.bm.memFd, p.pm.qm.memFd
	if p.c.Fault == "bad-queue" || p.c.Fault == "bad-buffer" {
		// an empty memory object: it can be received but not mapped
		empty, err := syscall.MemfdCreate("shmipc"+censusPrefix()+"empty", 0)
		if err != nil {
			harnessFail("memfd_create: %v", err)
		}
		defer syscall.Close(empty)
		if p.c.Fault == "bad-queue" {
			qfd = empty
		} else {
			bfd = empty
		}
	}
	if err := syscall.Sendmsg(p.fd, nil, syscall.UnixRights(bfd, qfd), nil, 0); err != nil {
		return
	}
	if h, ok := p.recv(headerSize, 5); ok && header(h).MsgType() == typeAckShareMemory {
		p.completed = true
	}
}

// runFakeServer speaks the server side against a real client.
func (p *fakePeer) runFakeServer() {
	defer close(p.done)
	if !p.c.MemFd {
		// protocol 2: the client sends its metadata and expects nothing back
		h, ok := p.recv(headerSize, 0)
		if ok {
			p.recv(int(header(h).Length())-headerSize, -2)
		}
		return
	}
	if _, ok := p.recv(headerSize, 0); !ok {
		return
	}
	if !p.send(hdrBytes(typeExchangeProtoVersion, p.c.ServerVer), 1) {
		return
	}
	h, ok := p.recv(headerSize, 2)
	if !ok {
		return
	}
	p.metaType, p.metaVer = int(header(h).MsgType()), int(header(h).Version())
	if _, ok := p.recv(int(header(h).Length())-headerSize, -2); !ok {
		return
	}
	if header(h).MsgType() == typeShareMemoryByMemfd {
		if !p.send(hdrBytes(typeAckReadyRecvFD, p.c.ServerVer), 3) {
			return
		}
		if p.c.Step == 4 {
			if p.c.Fault == "close" {
				syscall.Shutdown(p.fd, syscall.SHUT_RDWR)
				return
			}
			<-p.release
			if p.c.Fault != "resume" {
				return
			}
			p.resumed = true
		}
		oob := make([]byte, syscall.CmsgSpace(8))
		_, oobn, _, _, err := syscall.Recvmsg(p.fd, nil, oob, 0)
		if err != nil || oobn == 0 {
			return
		}
		if msgs, err := syscall.ParseSocketControlMessage(oob[:oobn]); err == nil && len(msgs) > 0 {
			if fds, err := syscall.ParseUnixRights(&msgs[0]); err == nil {
				for _, fd := range fds {
					syscall.Close(fd)
				}
			}
		}
	}
	p.completed = p.send(hdrBytes(typeAckShareMemory, p.c.ServerVer), 5)
}

func c12Run(c hs12Case, r *runCtx) {
	censusWarmupOnce()
	base := stableCensus()
	r.Label(c.Kind)
	switch c.Kind {
	case "pair":
		c12RunPair(c, r)
	case "pair-slow":
		c12RunPairSlow(c, r)
	default:
		c12RunFake(c, r)
	}
	if r.Failed() {
		return
	}
	if _, df := settleCensus(base, 4*time.Second); df != "" {
		r.Violf("after the handshake case ended (both ends closed, finalisers run): %s", df)
	}
	if c.Step >= 0 || c.Kind == "pair" {
		r.NonTrivial()
	}
}

var c12Warm bool

func censusWarmupOnce() {
	if !c12Warm {
		c12Warm = true
		censusWarmup()
	}
}

func c12RunPair(c hs12Case, r *runCtx) {
	cc, sc := connPair(c.Network)
	cconf := c12Config(c.MemFd)
	cconf.InitializeTimeout = 5 * time.Second
	sconf := *cconf
	client, server, cerr, serr := newPairFromConns(cconf, &sconf, cc, sc)
	if cerr != nil || serr != nil {
		r.Violf("genuine %s client over %s: client result %v, server result %v", map[bool]string{false: "file/v2", true: "memfd/v3"}[c.MemFd], c.Network, cerr, serr)
		if client != nil {
			client.Close()
		}
		if server != nil {
			server.Close()
		}
		return
	}
	defer func() {
		client.Close()
		server.Close()
		waitPoked(3*time.Second, func() bool { return client.queueManager == nil && server.queueManager == nil })
	}()
	want := uint8(2)
	if c.MemFd {
		want = 3
	}
	if client.communicationVersion != want || server.communicationVersion != want {
		r.Violf("negotiated version: client %d server %d, expected the lower common version %d", client.communicationVersion, server.communicationVersion, want)
		return
	}
	// one memory: a keyed round trip that must not touch the socket fallback
	st, err := client.OpenStream()
	if err != nil {
		r.Violf("OpenStream: %v", err)
		return
	}
	data := keyedBytes(12, 0, 3000)
	st.BufferWriter().WriteBytes(data)
	if err := st.Flush(false); err != nil {
		r.Violf("Flush: %v", err)
		return
	}
	ss := acceptWithin(server, e2Stall)
	if ss == nil {
		r.Violf("handshake succeeded on both ends but data flushed by the client never reached the server (do they map the same queue and buffer memory?)")
		return
	}
	ss.SetReadDeadline(time.Now().Add(e2Stall))
	got, err := ss.BufferReader().ReadBytes(len(data))
	if err != nil || string(got) != string(data) {
		r.Violf("round trip through shared memory failed: %v", err)
		return
	}
	ss.BufferWriter().WriteBytes(got)
	ss.BufferReader().ReleasePreviousRead()
	if err := ss.Flush(false); err != nil {
		r.Violf("server Flush: %v", err)
		return
	}
	st.SetReadDeadline(time.Now().Add(e2Stall))
	back, err := st.BufferReader().ReadBytes(len(data))
	if err != nil || string(back) != string(data) {
		r.Violf("echo through shared memory failed: %v", err)
		return
	}
	st.BufferReader().ReleasePreviousRead()
	_, cs, _ := client.GetMetrics()
	_, sst, _ := server.GetMetrics()
	if cs.FallbackWriteCount != 0 || sst.FallbackWriteCount != 0 {
		r.Violf("round trip used the socket fallback (%d/%d writes): the two ends do not share one buffer memory", cs.FallbackWriteCount, sst.FallbackWriteCount)
		return
	}
	st.Close()
	ss.Close()
	if c.MemFd {
		r.Label("memfd")
	} else {
		r.Label("file")
	}
}

func c12RunFake(c hs12Case, r *runCtx) {
	fds, err := syscall.Socketpair(syscall.AF_UNIX, syscall.SOCK_STREAM|syscall.SOCK_CLOEXEC, 0)
	if err != nil {
		harnessFail("socketpair: %v", err)
	}
	f := os.NewFile(uintptr(fds[0]), "real-end")
	realConn, err := net.FileConn(f)
	f.Close()
	if err != nil {
		harnessFail("FileConn: %v", err)
	}
	p := &fakePeer{fd: fds[1], c: c, done: make(chan struct{}), release: make(chan struct{})}
	conf := c12Config(c.MemFd)
	realIsClient := c.Kind == "fake-server"
	if !realIsClient {
		// the scripted client announces genuine memory
		name := uniqueName("hs12")
		p.pm.bPath, p.pm.qPath = "/dev/shm/"+name+bufferPathSuffix, "/dev/shm/"+name+"_queue"
		p.pm.memfd = c.MemFd
		if c.MemFd {
			p.pm.bm, err = getGlobalBufferManagerWithMemFd(p.pm.bPath, 0, 1<<20, true, conf.BufferSliceSizes)
			if err == nil {
				p.pm.qm, err = createQueueManagerWithMemFd(p.pm.qPath, 64)
			}
		} else {
			p.pm.bm, err = getGlobalBufferManager(p.pm.bPath, 1<<20, true, conf.BufferSliceSizes)
			if err == nil {
				p.pm.qm, err = createQueueManager(p.pm.qPath, 64)
			}
		}
		if err != nil {
			harnessFail("peer memory: %v", err)
		}
		go p.runFakeClient(conf)
	} else {
		go p.runFakeServer()
	}
	t0 := time.Now()
	type res struct {
		s   *Session
		err error
	}
	ch := make(chan res, 1)
	go func() {
		s, err := newSession(conf, realConn, realIsClient)
		ch <- res{s, err}
	}()
	var rr res
	select {
	case rr = <-ch:
	case <-time.After(c12Timeout + 3*time.Second):
		r.Violf("the real end neither succeeded nor failed within InitializeTimeout (%v) + 3 s", c12Timeout)
	}
	el := time.Since(t0)
	close(p.release) // the stalled peer gives up now (after the real end had its time-out) and closes - or resumes
	select {
	case <-p.done:
	case <-time.After(5 * time.Second):
		// a resumed peer that is neither answered nor disconnected
		r.Violf("the real end gave up the handshake (%v) but keeps the connection open without answering: the resumed peer is stuck", rr.err)
		syscall.Shutdown(p.fd, syscall.SHUT_RDWR)
		<-p.done
	}
	syscall.Close(p.fd)
	if c.Fault == "resume" && rr.err != nil && p.completed && realIsClient == false && !r.Failed() {
		r.Violf("the real server gave up the handshake after its time-out (%v), yet when the client carried on it was served a complete, acknowledged handshake: success on one end, error on the other", rr.err)
	}
	expectOK := c.Step < 0
	if c.MemFd && realIsClient && c.ServerVer == 2 {
		// a version-2 server cannot take a memfd client's descriptors; the client falls back to what version 2 offers: fail or succeed, but consistently
		expectOK = rr.err == nil
	}
	if c.MemFd && !realIsClient && c.Step == 5 {
		// the scripted client only fails to read the final acknowledgement: the server has completed its part by then
		// (if the client has shut the socket down the server's last write may fail: either outcome is consistent)
		expectOK = true
		if c.Fault == "close" {
			expectOK = rr.err == nil
		}
	}
	if !c.MemFd && realIsClient {
		// protocol 2 has no acknowledgement: the client cannot notice that the server stopped reading its metadata
		// (unless the socket is already shut down when it writes)
		expectOK = rr.err == nil || c.Step < 0
		r.Label("v2-client-cannot-observe-server-faults")
	}
	if !r.Failed() {
		switch {
		case expectOK && rr.err != nil:
			r.Violf("fault-free handshake against a scripted %s peer failed: %v", c.Kind, rr.err)
		case !expectOK && rr.err == nil:
			r.Violf("the peer %s at step %d (fault %s) but the real end reports a successful handshake", c.Kind, c.Step, c.Fault)
		case !expectOK && el > c12Timeout+time.Second:
			r.Violf("the real end took %v to fail, InitializeTimeout is %v", el, c12Timeout)
		}
	}
	// lower common version
	if !r.Failed() && realIsClient && c.MemFd && p.metaVer != 0 {
		want := 3
		if c.ServerVer < want {
			want = c.ServerVer
		}
		if p.metaVer != want || (want == 2 && p.metaType != int(typeShareMemoryByFilePath)) || (want == 3 && p.metaType != int(typeShareMemoryByMemfd)) {
			r.Violf("the server announced protocol %d; the client went on with an event of type %d in protocol %d instead of the lower common version %d", c.ServerVer, p.metaType, p.metaVer, want)
		}
	}
	if !r.Failed() && rr.err == nil && rr.s != nil {
		want := uint8(2)
		if c.MemFd && (!realIsClient || c.ServerVer >= 3) {
			want = 3
		}
		if rr.s.communicationVersion != want {
			r.Violf("session established with communication version %d, the lower common version is %d", rr.s.communicationVersion, want)
		}
	}
	if rr.err == nil && rr.s != nil {
		r.Label("real-end-succeeded")
		// the scripted peer is gone: the session must notice and end
		s := rr.s
		if !waitPoked(3*time.Second, s.IsClosed) {
			r.Violf("the scripted peer closed its socket, the established session did not become closed within 3 s")
		}
		s.Close()
		waitPoked(3*time.Second, func() bool { return s.queueManager == nil })
	} else {
		r.Label("real-end-failed")
	}
	if !realIsClient {
		if p.pm.qm != nil && !p.pm.memfd {
			if _, e := os.Stat(p.pm.qPath); e != nil {
				p.pm.qm.mmapMapType, p.pm.qm.memFd = MemMapTypeMemFd, -1 // already removed by the server side's unmap
			}
		}
		p.pm.release()
	}
}

// generated part: delays at every step of a scripted peer (handshake must still succeed while the total stays below the time-out),
// and every (kind, step, fault) again under those delays
func genC12Case(t *rapid.T) hs12Case {
	all := c12Cases()
	c := all[rapid.IntRange(0, len(all)-1).Draw(t, "script")]
	if c.Kind != "pair" && c.Kind != "pair-slow" {
		c.DelayMs = rapid.SampledFrom([]int{0, 1, 5, 20}).Draw(t, "delay")
	}
	return c
}

const c12Rule = "handshake scripts: genuine client x genuine server for (file/v2, memfd/v3) x (unix, tcp for file), and a genuine end against a scripted peer of every generation that performs the exchange up to step k and then stalls past the time-out, closes, or sends half of the step's bytes - every (generation, step, fault) is listed and executed; " +
	"oracle: success on both ends with the lower common version and a shared-memory round trip without socket fallback, or an error on the real end within InitializeTimeout+1s; afterwards descriptors, mappings and /dev/shm files are back to the baseline census; " +
	"non-trivial = a fault was injected or two genuine ends were paired; distinct by case hash"

var c12Assumptions = []string{"protocol 2 (file mapping) has no acknowledgement: a file client cannot observe a server that stops reading; for it only the server side and the later session end are judged",
	"descriptors kept alive only by a not-yet-run finaliser are given two GC cycles", "InitializeTimeout of the real end is 300 ms in these scripts"}

func TestVerifC12Enum(t *testing.T) {
	runEnum(t, checkDef[hs12Case]{name: "TestVerifC12Enum", rule: c12Rule, assumptions: c12Assumptions, run: c12Run}, c12Cases())
}

func TestVerifC12Gen(t *testing.T) {
	runCheck(t, checkDef[hs12Case]{name: "TestVerifC12Gen", rule: c12Rule + "; generated part: the same scripts with per-step delays of 0-20 ms", assumptions: c12Assumptions, gen: genC12Case, run: c12Run})
}

var _ = fmt.Sprintf
