//go:build verif

package shmipc

// C19 - the net.Listener / net.Conn adapter behaves like a stream socket (engine E2 histories, DESIGN.md 5/C19).

import (
	"strings"
	"runtime/debug"
	"encoding/binary"
	"fmt"
	"net"
	"os"
	"sync/atomic"
	"testing"
	"time"

	"pgregory.net/rapid"
)

type nlOp struct {
	K string `json:"k"` // dial | open | cwrite | accept | sread | swrite | cread | sclose | cclose | lclose | sdeadline
	S int    `json:"s,omitempty"` // session index / stream index
	N int    `json:"n,omitempty"`
}

type nlCase struct {
	MemFd bool   `json:"memfd"`
	Ops   []nlOp `json:"ops"`
	// Ghost (probes of known finding ghost-conn-after-server-close only): the server may close a connection while client data is in flight
	Ghost bool `json:"ghost,omitempty"`
	// Backlog: 0 = Listen (default backlog 4096), otherwise ListenWithBacklog: with 1 or 2 the session goroutine has to wait
	// for Accept before it can hand over the next connection - every stream must surface all the same
	Backlog int `json:"backlog,omitempty"`
}

func genNlCase(t *rapid.T) nlCase {
	c := nlCase{MemFd: rapid.Bool().Draw(t, "memfd"), Backlog: rapid.SampledFrom([]int{0, 0, 1, 2}).Draw(t, "backlog")}
	nops := rapid.IntRange(3, 40).Draw(t, "nops")
	nsess, nstreams := 0, 0
	sizes := rapid.SampledFrom([]int{1, 2, 5, 100, 4096, 8172, 8173, 20000, 70000})
	c.Ops = append(c.Ops, nlOp{K: "dial"})
	nsess = 1
	for len(c.Ops) < nops {
		k := rapid.SampledFrom([]string{"dial", "open", "open", "cwrite", "cwrite", "cwrite", "accept", "accept", "sread", "sread", "swrite", "cread", "sclose", "cclose", "lclose", "sdeadline", "swaitread", "hog", "unhog"}).Draw(t, "k")
		op := nlOp{K: k}
		switch k {
		case "dial":
			if nsess >= 3 {
				continue
			}
			nsess++
		case "open":
			if nstreams >= 8 {
				continue
			}
			op.S = rapid.IntRange(0, nsess-1).Draw(t, "sess")
			nstreams++
		case "lclose":
			if rapid.IntRange(0, 2).Draw(t, "really") != 0 {
				continue
			}
		case "hog":
			op.S = rapid.IntRange(0, nsess-1).Draw(t, "sess")
			op.N = rapid.IntRange(0, 2).Draw(t, "keep")
		case "unhog":
		case "accept":
		default:
			if nstreams == 0 {
				continue
			}
			op.S = rapid.IntRange(0, nstreams-1).Draw(t, "stream")
			op.N = sizes.Draw(t, "n")
		}
		c.Ops = append(c.Ops, op)
	}
	return c
}

type nlStream struct {
	sess               int
	cs                 *Stream
	conn               net.Conn
	c2sFlushed, c2sGot int
	s2cFlushed, s2cGot int
	accepted           bool
	cClosed, sClosed   bool
	key                uint32
}

type hoggedBuf struct {
	bm *bufferManager
	b  *bufferSlice
}

// a buffer manager must not be touched once a session that owns it has been closed (its memory may be unmapped)
func sessionsClosedFor(sessions []*Session, bm *bufferManager) bool {
	for _, s := range sessions {
		if s.bufferManager == bm && s.IsClosed() {
			return true
		}
	}
	return false
}

// acceptTimed: Accept with a bound (a listener that never answers must not wedge the harness)
func acceptTimed(ln net.Listener, d time.Duration) (net.Conn, error, bool) {
	type res struct {
		c   net.Conn
		err error
	}
	ch := make(chan res, 1)
	go func() {
		c, err := ln.Accept()
		ch <- res{c, err}
	}()
	select {
	case rr := <-ch:
		return rr.c, rr.err, true
	case <-time.After(d):
		return nil, nil, false
	}
}

func nlRun(c nlCase, r *runCtx) {
	path := "/tmp/" + uniqueName("nl") + ".sock"
	var ln net.Listener
	var err error
	if c.Backlog > 0 {
		ln, err = ListenWithBacklog(path, c.Backlog)
		r.Label("small-backlog")
	} else {
		ln, err = Listen(path)
	}
	if err != nil {
		harnessFail("Listen: %v", err)
	}
	l := ln.(*listener)
	lnClosed := false
	var hogged []hoggedBuf
	var sessions []*Session
	var streams []*nlStream
	defer func() {
		for _, h := range hogged {
			if !sessionsClosedFor(sessions, h.bm) {
				h.bm.recycleBuffer(h.b)
			}
		}
		if !lnClosed {
			ln.Close()
		}
		for _, st := range streams {
			if st.conn != nil {
				st.conn.Close()
			}
			if st.cs != nil {
				st.cs.Close()
			}
		}
		for _, s := range sessions {
			s.Close()
		}
		os.Remove(path)
	}()
	dial := func() *Session {
		conn, err := net.Dial("unix", path)
		if err != nil {
			if lnClosed {
				return nil
			}
			harnessFail("dial: %v", err)
		}
		cfg := defaultPairCfg
		cfg.MemFd = c.MemFd
		s, err := newSession(cfg.config(), conn, true)
		if err != nil {
			if lnClosed {
				return nil
			}
			harnessFail("client session: %v", err)
		}
		return s
	}
	// every stream's first four bytes carry its index, so that accepted connections can be matched
	payload := func(st *nlStream, dir, from, n int) []byte {
		b := keyedBytes(st.key*2+uint32(dir), from, n)
		if dir == 0 {
			for j := 0; j < n && from+j < 4; j++ {
				var hdr [4]byte
				binary.BigEndian.PutUint32(hdr[:], st.key)
				b[j] = hdr[from+j]
			}
		}
		return b
	}
	checkBytes := func(st *nlStream, dir, from int, got []byte) bool {
		want := payload(st, dir, from, len(got))
		for j := range got {
			if got[j] != want[j] {
				r.Violf("stream %d direction %d: byte %d is %#x, want %#x", st.key, dir, from+j, got[j], want[j])
				return false
			}
		}
		return true
	}
	expectAccept := func() int {
		n := 0
		for _, st := range streams {
			if st.c2sFlushed > 0 && !st.accepted {
				n++
			}
		}
		return n
	}
	for oi, op := range c.Ops {
		switch op.K {
		case "dial":
			if lnClosed {
				continue
			}
			if s := dial(); s != nil {
				sessions = append(sessions, s)
			}
		case "open":
			if op.S >= len(sessions) || sessions[op.S].IsClosed() {
				continue
			}
			cs, err := sessions[op.S].OpenStream()
			if err != nil {
				continue
			}
			streams = append(streams, &nlStream{sess: op.S, cs: cs, key: uint32(len(streams) + 1)})
		case "cwrite":
			if op.S >= len(streams) {
				continue
			}
			st := streams[op.S]
			if st.cClosed || st.sClosed || lnClosed {
				continue
			}
			n := op.N
			if st.c2sFlushed == 0 && n < 4 {
				n = 4
			}
			k, err := st.cs.Write(payload(st, 0, st.c2sFlushed, n))
			if err != nil {
				r.Violf("op %d: client Write(%d) on an open stream failed: %v", oi, n, err)
				return
			}
			if k != n {
				r.Violf("op %d: client Write(%d) returned (%d, nil)", oi, n, k)
				return
			}
			st.c2sFlushed += n
		case "accept":
			if lnClosed {
				t0 := time.Now()
				conn, err, returned := acceptTimed(ln, 3*time.Second)
				if !returned {
					r.Violf("op %d: Accept on a closed listener did not return within 3 s", oi)
					return
				}
				if err == nil {
					// a connection queued before the close may still be handed out; it must be a genuine one
					_ = conn
					r.Label("accept-after-close-returned-conn")
					conn.Close()
				}
				if time.Since(t0) > 2*time.Second {
					r.Violf("op %d: Accept on a closed listener took %v", oi, time.Since(t0))
					return
				}
				continue
			}
			if expectAccept() == 0 {
				continue
			}
			if c.Backlog > 0 && expectAccept() > c.Backlog {
				r.Label("backlog-exceeded")
			}
			type res struct {
				c   net.Conn
				err error
			}
			ch := make(chan res, 1)
			go func() {
				c, err := ln.Accept()
				ch <- res{c, err}
			}()
			var conn net.Conn
			select {
			case rr := <-ch:
				if rr.err != nil {
					r.Violf("op %d: Accept failed although %d stream(s) carry data: %v", oi, expectAccept(), rr.err)
					return
				}
				conn = rr.c
			case <-time.After(e2Stall):
				r.Violf("op %d: %d stream(s) carry flushed data but Accept did not return within %v", oi, expectAccept(), e2Stall)
				return
			}
			var hdr [4]byte
			conn.SetReadDeadline(time.Now().Add(e2Stall))
			got := 0
			for got < 4 {
				k, err := conn.Read(hdr[got:])
				if err != nil || k == 0 {
					desc := ""
					if sw, ok := conn.(*streamWrapper); ok {
						for si, o := range streams {
							if o.cs.StreamID() == sw.stream.id && sessions[o.sess].isClient && o.cs.session.sessionName() == sw.stream.session.sessionName() {
								desc = fmt.Sprintf(" [stream index %d: client flushed %d, server got %d, accepted before=%v, client closed=%v, server closed=%v; server stream state %d, recvBuf.len %d]",
									si, o.c2sFlushed, o.c2sGot, o.accepted, o.cClosed, o.sClosed, sw.stream.getStreamState(), sw.stream.recvBuf.len)
							}
						}
					}
					r.Violf("op %d: reading the first bytes of an accepted connection: (%d, %v)%s", oi, k, err, desc)
					return
				}
				got += k
			}
			idx := int(binary.BigEndian.Uint32(hdr[:])) - 1
			if idx < 0 || idx >= len(streams) {
				ghost := false
				for _, o := range streams {
					if o.sClosed && o.c2sFlushed > o.c2sGot {
						ghost = true
					}
				}
				if ghost {
					r.ViolSig("ghost-conn-after-server-close", "op %d: Accept returned a connection that starts with %x in mid-stream: a stream whose server end was closed while client data was in flight surfaced a second time", oi, hdr)
				} else {
					r.Violf("op %d: accepted a connection that starts with %x: no such stream", oi, hdr)
				}
				return
			}
			st := streams[idx]
			if st.accepted {
				r.Violf("op %d: stream %d surfaced a second time through Accept", oi, st.key)
				return
			}
			st.accepted = true
			st.conn = conn
			st.c2sGot = 4
			r.Label("accepted")
		case "sread":
			if op.S >= len(streams) {
				continue
			}
			st := streams[op.S]
			if st.conn == nil || st.sClosed {
				continue
			}
			av := st.c2sFlushed - st.c2sGot
			buf := make([]byte, op.N)
			if av == 0 {
				if st.cClosed {
					continue
				}
				// nothing to read: a short deadline must be honoured, with a timeout error and not before it
				d := 15 * time.Millisecond
				t0 := time.Now()
				st.conn.SetReadDeadline(t0.Add(d))
				k, err := st.conn.Read(buf)
				el := time.Since(t0)
				if k != 0 || err == nil {
					r.Violf("op %d: Read with nothing flushed returned (%d, %v)", oi, k, err)
					return
				}
				if !isTimeout(err) {
					r.Violf("op %d: Read with a deadline and no data returned %v, expected a timeout", oi, err)
					return
				}
				if el < d-time.Millisecond || el > d+2*time.Second {
					r.Violf("op %d: read deadline of %v fired after %v", oi, d, el)
					return
				}
				r.Label("read-deadline")
				continue
			}
			st.conn.SetReadDeadline(time.Now().Add(e2Stall))
			k, err := st.conn.Read(buf)
			if err != nil || k < 1 || k > len(buf) || k > av {
				r.Violf("op %d: conn.Read(len %d) with %d bytes flushed and unread returned (%d, %v)", oi, len(buf), av, k, err)
				return
			}
			if !checkBytes(st, 0, st.c2sGot, buf[:k]) {
				return
			}
			st.c2sGot += k
		case "swrite":
			if op.S >= len(streams) {
				continue
			}
			st := streams[op.S]
			if st.conn == nil || st.sClosed || st.cClosed {
				continue
			}
			k, err := st.conn.Write(payload(st, 1, st.s2cFlushed, op.N))
			if err != nil || k != op.N {
				r.Violf("op %d: conn.Write(%d) on an open connection returned (%d, %v)", oi, op.N, k, err)
				return
			}
			st.s2cFlushed += op.N
		case "cread":
			if op.S >= len(streams) {
				continue
			}
			st := streams[op.S]
			av := st.s2cFlushed - st.s2cGot
			if st.cClosed || av == 0 {
				continue
			}
			if st.cs.session.IsClosed() {
				// the session ended (listener closed and every connection of the session closed on the server side): its shared
				// memory is gone and with it what the client had not read yet - reads fail from here on, nothing is expected of them
				r.Label("read-after-session-end-skipped")
				continue
			}
			buf := make([]byte, op.N)
			st.cs.SetReadDeadline(time.Now().Add(e2Stall))
			k, err := st.cs.Read(buf)
			if err != nil || k < 1 || k > len(buf) || k > av {
				r.Violf("op %d: client Read(len %d) with %d unread returned (%d, %v)", oi, len(buf), av, k, err)
				return
			}
			if !checkBytes(st, 1, st.s2cGot, buf[:k]) {
				return
			}
			st.s2cGot += k
		case "sclose":
			if op.S >= len(streams) {
				continue
			}
			st := streams[op.S]
			if st.conn == nil {
				continue
			}
			if st.c2sGot != st.c2sFlushed && !c.Ghost {
				// known finding ghost-conn-after-server-close: client data still in flight when the server closes its end
				// re-creates the stream, which surfaces as a second connection. Excluded by construction, counted.
				r.Count("excluded_server_close_with_client_data_in_flight", 1)
				continue
			}
			if err := st.conn.Close(); err != nil {
				r.Violf("op %d: conn.Close returned %v", oi, err)
				return
			}
			st.sClosed = true
		case "cclose":
			if op.S >= len(streams) {
				continue
			}
			st := streams[op.S]
			st.cs.Close()
			st.cClosed = true
		case "swaitread":
			// a read with the deadline cleared (possibly after earlier reads under a deadline) waits for data that is written
			// a little later: it returns that data, it neither times out nor returns empty-handed
			if op.S >= len(streams) {
				continue
			}
			st := streams[op.S]
			if st.conn == nil || st.sClosed || st.cClosed || lnClosed || st.c2sFlushed != st.c2sGot {
				continue
			}
			n := op.N
			if n < 1 {
				n = 1
			}
			if n > 4096 {
				n = 4096
			}
			data := payload(st, 0, st.c2sFlushed, n)
			st.conn.SetReadDeadline(time.Time{})
			wres := make(chan error, 1)
			go func() {
				time.Sleep(20 * time.Millisecond)
				k, err := st.cs.Write(data)
				if err == nil && k != n {
					err = fmt.Errorf("short write %d of %d", k, n)
				}
				wres <- err
			}()
			type rres struct {
				k   int
				err error
				buf []byte
			}
			rch := make(chan rres, 1)
			t0 := time.Now()
			go func() {
				buf := make([]byte, n)
				k, err := st.conn.Read(buf)
				rch <- rres{k, err, buf}
			}()
			if werr := <-wres; werr != nil {
				r.Violf("op %d: client Write(%d) on an open stream failed: %v", oi, n, werr)
				return
			}
			st.c2sFlushed += n
			select {
			case rr := <-rch:
				if rr.err != nil || rr.k < 1 || rr.k > n {
					r.Violf("op %d: conn.Read with the deadline cleared, %d bytes written 20 ms later, returned (%d, %v) after %v", oi, n, rr.k, rr.err, time.Since(t0))
					return
				}
				if !checkBytes(st, 0, st.c2sGot, rr.buf[:rr.k]) {
					return
				}
				st.c2sGot += rr.k
				r.Label("read-without-deadline-waited")
			case <-time.After(e2Stall):
				r.Violf("op %d: conn.Read with the deadline cleared is still blocked %v after %d bytes were written", oi, e2Stall, n)
				return
			}
		case "sdeadline":
			// zero-length read
			if op.S >= len(streams) || streams[op.S].conn == nil || streams[op.S].sClosed {
				continue
			}
			k, err := streams[op.S].conn.Read(nil)
			if k != 0 || err != nil {
				r.Violf("op %d: Read(nil) returned (%d, %v)", oi, k, err)
				return
			}
		case "hog":
			// shared memory of one session runs out (other users): writes spill to the socket until it is given back
			if op.S >= len(sessions) || sessions[op.S].IsClosed() {
				continue
			}
			bm := sessions[op.S].bufferManager
			for _, l := range bm.lists {
				for l.remain() > op.N {
					b, err := l.pop()
					if err != nil {
						break
					}
					hogged = append(hogged, hoggedBuf{bm, b})
				}
			}
			r.Label("pressure")
		case "unhog":
			for _, h := range hogged {
				if !sessionsClosedFor(sessions, h.bm) {
					h.bm.recycleBuffer(h.b)
				}
			}
			hogged = nil
		case "stall", "resume":
			// probes only: the server's event loop stops / resumes consuming this session's queue (deterministic "data in flight")
			if op.S >= len(sessions) {
				continue
			}
			q := sessions[op.S].queueManager.sendQueue
			if op.K == "stall" {
				atomic.StoreUint32(q.workingFlag, 1)
			} else {
				atomic.StoreUint32(q.workingFlag, 0)
				sessions[op.S].wakeUpPeer()
				time.Sleep(5 * time.Millisecond)
			}
		case "lclose":
			if lnClosed {
				continue
			}
			if err := ln.Close(); err != nil {
				r.Violf("op %d: listener Close returned %v", oi, err)
				return
			}
			lnClosed = true
			r.Label("listener-closed-mid-history")
			// the client sessions notice the loss of their connection and tear themselves down on the event loop; a call on one
			// of their streams while that is in progress is known finding D20 (here: Conn.Close -> nil dereference in wakeUpPeer,
			// probe replays/known/C19-close-races-teardown.json). The history goes on once the teardown has finished.
			for _, s := range sessions {
				s := s
				closing := waitPoked(300*time.Millisecond, s.IsClosed)
				if closing {
					waitPoked(10*time.Second, func() bool {
						s.shutdownLock.Lock()
						defer s.shutdownLock.Unlock()
						return s.queueManager == nil
					})
					r.Count("waited_for_client_teardown", 1)
				}
			}
		}
	}
	for _, h := range hogged {
		if !sessionsClosedFor(sessions, h.bm) {
			h.bm.recycleBuffer(h.b)
		}
	}
	hogged = nil
	// ---- end: every stream with data must have surfaced exactly once (if the listener is still open) ----
	if !lnClosed {
		for expectAccept() > 0 {
			before := expectAccept()
			ch := make(chan net.Conn, 1)
			go func() {
				c, err := ln.Accept()
				if err == nil {
					ch <- c
				}
			}()
			select {
			case conn := <-ch:
				var hdr [4]byte
				conn.SetReadDeadline(time.Now().Add(e2Stall))
				got := 0
				for got < 4 {
					k, err := conn.Read(hdr[got:])
					if err != nil || k == 0 {
						r.Violf("final accept: reading the first bytes: (%d, %v)", k, err)
						return
					}
					got += k
				}
				idx := int(binary.BigEndian.Uint32(hdr[:])) - 1
				if idx < 0 || idx >= len(streams) || streams[idx].accepted {
					for _, o := range streams {
						if o.sClosed && o.c2sFlushed > o.c2sGot {
							r.ViolSig("ghost-conn-after-server-close", "final accept: connection starting with %x in mid-stream: a stream whose server end was closed while client data was in flight surfaced a second time", hdr)
							return
						}
					}
					r.Violf("final accept: connection starting with %x is unknown or surfaced twice", hdr)
					return
				}
				streams[idx].accepted = true
				streams[idx].conn = conn
				streams[idx].c2sGot = 4
			case <-time.After(e2Stall):
				r.Violf("%d stream(s) carry flushed data but never surfaced through Accept", before)
				return
			}
		}
		// nothing else may be waiting
		time.Sleep(2 * time.Millisecond)
		if n := len(l.backlog); n != 0 {
			for _, o := range streams {
				if o.sClosed && o.c2sFlushed > o.c2sGot {
					r.ViolSig("ghost-conn-after-server-close", "%d extra connection(s) in the accept backlog: a stream whose server end was closed while client data was in flight surfaced a second time", n)
					return
				}
			}
			r.Violf("%d extra connection(s) in the accept backlog: more connections than streams with data", n)
			return
		}
		if err := ln.Close(); err != nil {
			r.Violf("listener Close returned %v", err)
			return
		}
		lnClosed = true
	}
	// after Close: Accept fails at once
	t0 := time.Now()
	for {
		conn, err, returned := acceptTimed(ln, 3*time.Second)
		if !returned {
			r.Violf("Accept on a closed listener did not return within 3 s")
			return
		}
		if err != nil {
			break
		}
		conn.Close() // connections queued before the close
		if time.Since(t0) > 2*time.Second {
			break
		}
	}
	if time.Since(t0) > 2*time.Second {
		r.Violf("Accept on a closed listener did not fail promptly (%v)", time.Since(t0))
		return
	}
	// close every accepted connection; sessions whose connections are all closed must end
	stuck := map[int]bool{}
	for _, st := range streams {
		if st.conn != nil {
			st.conn.Close()
		} else if st.c2sFlushed > 0 {
			stuck[st.sess] = true // a connection nobody can close (queued or dropped at listener close) is not held against the session
		}
	}
	for si, s := range sessions {
		if stuck[si] {
			r.Label("session-with-unreachable-conn")
			continue
		}
		if !waitPoked(10*time.Second, s.IsClosed) {
			r.Violf("listener closed and every accepted connection of session %d closed, but the session is still alive after 10s", si)
			return
		}
	}
	if len(streams) >= 2 || r.labels["listener-closed-mid-history"] {
		r.NonTrivial()
	}
}

func TestVerifC19NetListener(t *testing.T) {
	runCheck(t, checkDef[nlCase]{name: "TestVerifC19NetListener", lastCase: true,
		rule: "histories of 3-40 ops against Listen(path) or ListenWithBacklog(path, 1|2): 1-3 client sessions dialling, up to 8 streams, client Write / server conn.Read / conn.Write / client Read of sizes 1..70000, read deadline with no data, Read(nil), Close from either side, listener Close at a generated point; " +
			"oracle: Accept yields exactly one connection per stream that flushed data (matched by a 4-byte stream tag), Write returns (len(p), nil), Read returns 1..len(p) in-order bytes, deadlines honoured, Accept fails promptly after Close, sessions end once their connections are closed; " +
			"non-trivial = >= 2 streams or a listener close in mid-history; distinct by case hash",
		assumptions: []string{"reads are issued for bytes already flushed, or with a short deadline when nothing is flushed", "connections that were queued but never accepted when the listener closed cannot be closed by anybody and are not held against their session"},
		gen: genNlCase, run: func(c nlCase, r *runCtx) {
			defer func() {
				if p := recover(); p != nil {
					st := string(debug.Stack())
					if _, isHarness := p.(harnessPanic); !isHarness && knownCloseRace(st) && strings.Contains(st, "closeAndWait") {
						r.ViolSig("close-races-active-user", "a Conn.Close that raced the teardown of its session crashed: %v\n%s", p, trimStack([]byte(st)))
						return
					}
					panic(p)
				}
			}()
			nlRun(c, r)
		}})
}

var _ = fmt.Sprintf
