//go:build verif

package shmipc

// C06 - a stream is a faithful byte pipe whatever the write and read granularity (engine E2, DESIGN.md 5/C06).
// The op list is generated against a pure model (so every read is for bytes the model says were flushed),
// then interpreted against a real client/server session pair.

import (
	"encoding/json"
	"fmt"
	"os"
	"sync/atomic"
	"testing"
	"time"

	"pgregory.net/rapid"
)

type pipeOp struct {
	K    string `json:"k"`
	E    int    `json:"e"` // end performing the op: 0 client, 1 server
	N    int    `json:"n,omitempty"`
	Keep []int  `json:"keep,omitempty"`
}

type pipeCase struct {
	Cfg pairCfg  `json:"cfg"`
	Ops []pipeOp `json:"ops"`
	Fin int      `json:"fin,omitempty"` // C08: 0 = results released by ReleasePreviousRead, 1 = by closing the streams
}

type pipeModel struct {
	written, flushed, consumed [2]int // per direction d: writer is end d, reader is end 1-d
}

func (m *pipeModel) avail(d int) int { return m.flushed[d] - m.consumed[d] }

func genSizeFor(t *rapid.T, caps []uint32, label string) int {
	k := rapid.IntRange(0, 9).Draw(t, label+"k")
	ci := rapid.IntRange(0, len(caps)-1).Draw(t, label+"c")
	c := int(caps[ci])
	switch k {
	case 0, 1:
		return rapid.IntRange(0, 5).Draw(t, label)
	case 2, 3:
		return c + rapid.IntRange(-1, 1).Draw(t, label)
	case 4:
		return c*rapid.IntRange(2, 5).Draw(t, label+"m") + rapid.IntRange(-1, 1).Draw(t, label)
	case 5:
		return int(caps[len(caps)-1]) + rapid.IntRange(1, 5000).Draw(t, label)
	case 6:
		return rapid.IntRange(1, 3*c).Draw(t, label)
	default:
		return rapid.IntRange(1, 300).Draw(t, label)
	}
}

func genReadSize(t *rapid.T, avail int, caps []uint32, label string) int {
	if avail <= 1 {
		return avail
	}
	k := rapid.IntRange(0, 5).Draw(t, label+"k")
	n := 0
	switch k {
	case 0:
		n = avail
	case 1:
		n = avail - 1
	case 2:
		c := int(caps[rapid.IntRange(0, len(caps)-1).Draw(t, label+"c")])
		n = c + rapid.IntRange(-1, 1).Draw(t, label)
	case 3:
		n = rapid.IntRange(1, 8).Draw(t, label)
	default:
		n = rapid.IntRange(1, avail).Draw(t, label)
	}
	if n < 1 {
		n = 1
	}
	if n > avail {
		n = avail
	}
	return n
}

var pipeWriterOps = []string{"WriteBytes", "WriteBytes", "Reserve", "WriteByte", "WriteString", "Write", "Flush", "Flush", "Flush"}
var pipeReaderOps = []string{"ReadBytes", "ReadBytes", "Peek", "Discard", "ReadByte", "ReadString", "Read", "Sync", "Release", "Reuse"}

func genPipeOps(t *rapid.T, cfg pairCfg, maxOps int, zeroSizes bool) []pipeOp {
	caps := make([]uint32, len(cfg.Sizes))
	for i, p := range cfg.Sizes {
		caps[i] = p.Size
	}
	nops := rapid.IntRange(1, maxOps).Draw(t, "nops")
	var m pipeModel
	var ops []pipeOp
	hogged := false
	for len(ops) < nops {
		e := 0
		if m.flushed[0] > 0 && rapid.IntRange(0, 2).Draw(t, "end") == 0 {
			e = 1
		}
		kind := rapid.IntRange(0, 9).Draw(t, "kind")
		if kind <= 3 && m.avail(1-e) > 0 && rapid.Bool().Draw(t, "preferRead") {
			kind = 4 // unread bytes are waiting: read more often than write, so that reads meet slice boundaries
		}
		switch {
		case kind <= 3: // writer op on direction e
			k := rapid.SampledFrom(pipeWriterOps).Draw(t, "w")
			op := pipeOp{K: k, E: e}
			switch k {
			case "WriteBytes", "WriteString", "Reserve", "Write":
				op.N = genSizeFor(t, caps, "n")
				if op.N < 0 {
					op.N = 0
				}
				if op.N == 0 && (!zeroSizes || k == "Write") {
					op.N = 1
				}
				m.written[e] += op.N
				if k == "Write" {
					m.flushed[e] = m.written[e]
				}
			case "WriteByte":
				m.written[e]++
			case "Flush":
				m.flushed[e] = m.written[e]
			}
			ops = append(ops, op)
		case kind <= 7: // reader op on direction 1-e (needs the stream on end e to exist: e==0 always, e==1 once client flushed)
			d := 1 - e
			k := rapid.SampledFrom(pipeReaderOps).Draw(t, "r")
			op := pipeOp{K: k, E: e}
			av := m.avail(d)
			switch k {
			case "ReadBytes", "Peek", "Discard", "ReadString", "Read":
				if av == 0 {
					if !zeroSizes || k == "Read" {
						continue
					}
					op.N = 0 // zero-size call on an empty reader: must return at once with nothing
				} else {
					op.N = genReadSize(t, av, caps, "rn")
					if zeroSizes && rapid.IntRange(0, 15).Draw(t, "z") == 0 && k != "Read" {
						op.N = 0
					}
				}
				if k == "Read" {
					// len(p); the call may return fewer bytes - the interpreter advances the model by what it got, so the
					// generator must assume the minimum (1 byte) when deciding what later reads may ask for
					op.N = genSizeFor(t, caps, "pl")
					if op.N < 1 {
						op.N = 1
					}
					// conservative: treat as consuming everything it could -> later sizes are clipped by the interpreter
					c := op.N
					if c > av {
						c = av
					}
					m.consumed[d] += c
				} else if k != "Peek" {
					m.consumed[d] += op.N
				}
			case "ReadByte":
				if av == 0 {
					continue
				}
				m.consumed[d]++
			case "Sync":
				if av == 0 {
					continue
				}
			case "Reuse":
				if m.written[e] != m.flushed[e] {
					continue // ReleaseReadAndReuse with unflushed output is not a documented use
				}
			}
			ops = append(ops, op)
		case kind == 8:
			if hogged && rapid.Bool().Draw(t, "unhog") {
				ops = append(ops, pipeOp{K: "Unhog"})
				hogged = false
			} else {
				keep := make([]int, len(caps))
				for i := range keep {
					keep[i] = rapid.IntRange(0, 4).Draw(t, "keep")
				}
				ops = append(ops, pipeOp{K: "Hog", Keep: keep})
				hogged = true
			}
		default:
			ops = append(ops, pipeOp{K: "Flush", E: e})
			m.flushed[e] = m.written[e]
		}
	}
	return ops
}

func genPipeCase(t *rapid.T) pipeCase {
	return pipeCase{Cfg: defaultPairCfg, Ops: genPipeOps(t, defaultPairCfg, 40, true)}
}

func genPairCfg(t *rapid.T) pairCfg {
	n := rapid.IntRange(1, 4).Draw(t, "nclass")
	base := []uint32{rapid.SampledFrom([]uint32{16, 32, 64, 100}).Draw(t, "s0"), rapid.SampledFrom([]uint32{128, 256, 500}).Draw(t, "s1"),
		rapid.SampledFrom([]uint32{1024, 2048, 4096}).Draw(t, "s2"), rapid.SampledFrom([]uint32{8192, 32768, 65536}).Draw(t, "s3")}
	pct := [][]uint32{{100}, {5, 95}, {2, 8, 90}, {1, 1, 2, 96}}[n-1]
	cfg := pairCfg{MemFd: rapid.Bool().Draw(t, "memfd"), BufCap: 1 << 20, QueueCap: 8192}
	for i := 0; i < n; i++ {
		cfg.Sizes = append(cfg.Sizes, c03Pair{Size: base[4-n+i], Percent: pct[i]})
	}
	return cfg
}

func genPipeCaseCfg(t *rapid.T) pipeCase {
	cfg := genPairCfg(t)
	return pipeCase{Cfg: cfg, Ops: genPipeOps(t, cfg, 40, true)}
}

// pipeRun interprets a case. hooks let C08 reuse the interpreter.
type pipeHooks struct {
	onResult func(e int, kind string, data []byte, expect []byte) // zero-copy result obtained (ReadBytes/Peek)
	onRelease func(e int)                                          // results of end e released
	afterOp   func(i int, op pipeOp, st [2]*Stream, p *pairT)
	final     func(st *[2]*Stream, p *pairT, m *pipeModel) // after the last op, streams still open
}

func pipeKey(d int) uint32 { return uint32(7 + 13*d) }

func pipeRun(c pipeCase, r *runCtx, hooks *pipeHooks) {
	p := getPair(c.Cfg, r)
	var st [2]*Stream
	var err error
	st[0], err = p.c.OpenStream()
	if err != nil {
		harnessFail("OpenStream: %v", err)
	}
	var m pipeModel
	fb0 := atomic.LoadUint64(&p.c.stats.fallbackWriteCount) + atomic.LoadUint64(&p.s.stats.fallbackWriteCount)
	defer func() {
		// leave the shared pair clean: give back hogged slots, release and close both ends
		p.unhog()
		if st[1] == nil && m.flushed[0] > 0 && !r.Failed() {
			st[1] = pipeAccept(p, st[0].StreamID(), r)
		}
		for e := 0; e < 2; e++ {
			if st[e] != nil {
				st[e].BufferReader().ReleasePreviousRead()
				st[e].Close()
			}
		}
		if r.Failed() || !p.settle(300*time.Millisecond, r) {
			if !r.Failed() {
				r.Count("dirty_after_case", 1)
				r.Count("dirty:"+p.dirt(), 1)
				if os.Getenv("VERIF_DEBUG_DIRTY") != "" {
					b, _ := json.Marshal(c.Ops)
					fmt.Printf("DIRTY %s flushed=%v st1=%v active c=%d s=%d: %s\n", p.dirt(), m.flushed, st[1] != nil, p.c.GetActiveStreamCount(), p.s.GetActiveStreamCount(), b)
				}
			}
			dropPair(p)
		}
		fb1 := atomic.LoadUint64(&p.c.stats.fallbackWriteCount) + atomic.LoadUint64(&p.s.stats.fallbackWriteCount)
		if fb1 > fb0 {
			r.Label("fallback")
			r.NonTrivial()
		}
	}()
	reuseArmed := [2]bool{}
	for i, op := range c.Ops {
		e := op.E
		switch op.K {
		case "Hog":
			p.hogTo(op.Keep)
			r.Label("hog")
			continue
		case "Unhog":
			p.unhog()
			continue
		case "Adversary":
			pipeAdversary(p, r)
			if hooks != nil && hooks.afterOp != nil {
				hooks.afterOp(i, op, st, p)
				if r.Failed() {
					return
				}
			}
			continue
		}
		if e == 1 && st[1] == nil {
			if m.flushed[0] == 0 {
				harnessFail("generator bug: server op before the client flushed anything")
			}
			st[1] = pipeAccept(p, st[0].StreamID(), r)
			if st[1] == nil {
				r.Violf("op %d: client flushed %d bytes but the server never got the stream (no accept within %v)", i, m.flushed[0], e2Stall)
				return
			}
		}
		s := st[e]
		d := e // direction written by end e
		switch op.K {
		case "WriteBytes", "WriteString", "Reserve", "WriteByte", "Write":
			n := op.N
			if op.K == "WriteByte" {
				n = 1
			}
			data := keyedBytes(pipeKey(d), m.written[d], n)
			bw := s.BufferWriter()
			switch op.K {
			case "WriteBytes":
				k, err := bw.WriteBytes(data)
				if err != nil || k != n {
					r.Violf("op %d: WriteBytes(%d) = %d, %v", i, n, k, err)
					return
				}
			case "WriteString":
				if err := bw.WriteString(string(data)); err != nil {
					r.Violf("op %d: WriteString(%d): %v", i, n, err)
					return
				}
			case "Reserve":
				if reuseArmed[e] && n > 0 {
					r.Label("reserve-after-reuse")
					if lb := s.sendBuf; lb.sliceList.front() != nil && int(lb.sliceList.front().cap) < n {
						r.NonTrivial()
						r.Label("reserve-larger-than-reused-slice")
					}
				}
				buf, err := bw.Reserve(n)
				if err != nil || len(buf) != n {
					r.Violf("op %d: Reserve(%d) = len %d, %v", i, n, len(buf), err)
					return
				}
				copy(buf, data)
			case "WriteByte":
				if err := bw.WriteByte(data[0]); err != nil {
					r.Violf("op %d: WriteByte: %v", i, err)
					return
				}
			case "Write":
				m.written[d] += n
				pipeNoteFlush(s, r)
				k, err := s.Write(data)
				if err != nil || k != n {
					r.Violf("op %d: Write(%d) = %d, %v", i, n, k, err)
					return
				}
				m.flushed[d] = m.written[d]
				reuseArmed[e] = false
				n = 0
			}
			m.written[d] += n
			if l := s.BufferWriter().Len(); l != m.written[d]-m.flushed[d] {
				r.Violf("op %d (%s %d): writer Len() = %d, written-flushed = %d", i, op.K, op.N, l, m.written[d]-m.flushed[d])
				return
			}
		case "Flush":
			pipeNoteFlush(s, r)
			if err := s.Flush(false); err != nil {
				r.Violf("op %d: Flush of %d bytes: %v", i, m.written[d]-m.flushed[d], err)
				return
			}
			m.flushed[d] = m.written[d]
			reuseArmed[e] = false
			if l := s.BufferWriter().Len(); l != 0 {
				r.Violf("op %d: writer Len() = %d after Flush", i, l)
				return
			}
		default:
			if !pipeReadOp(i, op, s, &m, r, hooks, &reuseArmed) {
				return
			}
		}
		// invariant: reader Len never exceeds what was flushed and not consumed
		for ee := 0; ee < 2; ee++ {
			if st[ee] == nil {
				continue
			}
			dd := 1 - ee
			if l := st[ee].BufferReader().Len(); l < 0 || l > m.avail(dd) {
				r.Violf("after op %d (%s): reader Len() = %d, flushed-consumed = %d", i, op.K, l, m.avail(dd))
				return
			}
		}
		if hooks != nil && hooks.afterOp != nil {
			hooks.afterOp(i, op, st, p)
			if r.Failed() {
				return
			}
		}
	}
	if hooks != nil && hooks.final != nil {
		hooks.final(&st, p, &m)
	}
}

// pipeAdversary plays "unrelated activity": it allocates every slot that is free right now, overwrites header
// size/start fields and payload the way a writer would, and frees them again. A slot recycled too early is overwritten for sure.
func pipeAdversary(p *pairT, r *runCtx) {
	var got []*bufferSlice
	for _, l := range p.c.bufferManager.lists {
		for {
			b, err := l.pop()
			if err != nil {
				break
			}
			got = append(got, b)
		}
	}
	for _, b := range got {
		for j := range b.data {
			b.data[j] = 0xEE
		}
		b.writeIndex = len(b.data)
		b.update()
	}
	for _, b := range got {
		p.c.bufferManager.recycleBuffer(b)
	}
	r.Count("adversary_slots_cycled", len(got))
}

// pipeAccept accepts the server end of stream id; streams of earlier cases that surface late are closed and counted.
func pipeAccept(p *pairT, id uint32, r *runCtx) *Stream {
	for {
		s := acceptWithin(p.s, e2Stall)
		if s == nil || s.StreamID() == id {
			return s
		}
		r.Count("stale_stream_accepted", 1)
		s.Close()
	}
}

func pipeNoteFlush(s *Stream, r *runCtx) {
	n := 0
	for sl := s.sendBuf.sliceList.front(); sl != nil; sl = sl.next() {
		n++
		if sl == s.sendBuf.sliceList.writeSlice {
			break
		}
	}
	if n >= 3 {
		r.Label("message>=3slices")
		r.NonTrivial()
	} else if n == 2 {
		r.Label("message=2slices")
	}
	if s.sendBuf.Len() > 0 && !s.sendBuf.isFromShm {
		r.Label("message-has-heap-slice")
	}
}

func pipeReadOp(i int, op pipeOp, s *Stream, m *pipeModel, r *runCtx, hooks *pipeHooks, reuseArmed *[2]bool) bool {
	e := op.E
	d := 1 - e
	key := pipeKey(d)
	av := m.avail(d)
	n := op.N
	s.SetReadDeadline(time.Now().Add(e2Stall))
	br := s.BufferReader()
	lb := s.recvBuf
	check := func(what string, got []byte, from int) bool {
		for j := range got {
			if got[j] != keyed(key, from+j) {
				r.Violf("op %d: %s byte %d (stream position %d) = %#x, want %#x", i, what, j, from+j, got[j], keyed(key, from+j))
				return false
			}
		}
		return true
	}
	crossing := func(n int) {
		if f := lb.sliceList.front(); f != nil && lb.len >= n && f.size() < n && f.size() > 0 {
			r.Label("read-crosses-slice")
			r.NonTrivial()
		}
	}
	switch op.K {
	case "ReadBytes", "Peek", "ReadString", "Discard":
		if n > av {
			n = av // an earlier Read(p) returned less than the generator assumed... cannot happen (it assumes the max); defensive
		}
		if n == 0 && op.N != 0 {
			return true
		}
		crossing(n)
		var got []byte
		var err error
		switch op.K {
		case "ReadBytes":
			got, err = br.ReadBytes(n)
		case "Peek":
			got, err = br.Peek(n)
		case "ReadString":
			var str string
			str, err = br.ReadString(n)
			got = []byte(str)
		case "Discard":
			var k int
			k, err = br.Discard(n)
			if err == nil && k != n {
				r.Violf("op %d: Discard(%d) = %d", i, n, k)
				return false
			}
			got = nil
		}
		if err != nil {
			r.Violf("op %d: %s(%d) with %d bytes flushed and unread: %v", i, op.K, n, av, err)
			return false
		}
		if op.K != "Discard" {
			if len(got) != n {
				r.Violf("op %d: %s(%d) returned %d bytes", i, op.K, n, len(got))
				return false
			}
			if !check(op.K, got, m.consumed[d]) {
				return false
			}
			if hooks != nil && hooks.onResult != nil && (op.K == "ReadBytes" || op.K == "Peek") && n > 0 {
				hooks.onResult(e, op.K, got, keyedBytes(key, m.consumed[d], n))
			}
		}
		if op.K != "Peek" {
			m.consumed[d] += n
		}
	case "ReadByte":
		if av == 0 {
			return true
		}
		b, err := br.ReadByte()
		if err != nil {
			r.Violf("op %d: ReadByte with %d bytes unread: %v", i, av, err)
			return false
		}
		if !check("ReadByte", []byte{b}, m.consumed[d]) {
			return false
		}
		m.consumed[d]++
	case "Read":
		if av == 0 {
			return true
		}
		buf := make([]byte, n)
		k, err := s.Read(buf)
		if err != nil || k < 1 || k > n || k > av {
			r.Violf("op %d: Read(len %d) with %d unread = %d, %v", i, n, av, k, err)
			return false
		}
		if !check("Read", buf[:k], m.consumed[d]) {
			return false
		}
		m.consumed[d] += k
	case "Sync":
		if av == 0 {
			return true
		}
		got, err := br.Peek(av)
		if err != nil || len(got) != av {
			r.Violf("op %d: Peek(all %d) = %d bytes, %v", i, av, len(got), err)
			return false
		}
		if !check("Peek(all)", got, m.consumed[d]) {
			return false
		}
		if hooks != nil && hooks.onResult != nil {
			hooks.onResult(e, "Peek", got, keyedBytes(key, m.consumed[d], av))
		}
		if l := br.Len(); l != av {
			r.Violf("op %d: Len() = %d after everything flushed was peeked, flushed-consumed = %d", i, l, av)
			return false
		}
		r.Label("sync")
	case "Release":
		if hooks != nil && hooks.onRelease != nil {
			hooks.onRelease(e)
		}
		br.ReleasePreviousRead()
	case "Reuse":
		if hooks != nil && hooks.onRelease != nil {
			hooks.onRelease(e)
		}
		before := s.recvBuf
		s.ReleaseReadAndReuse()
		if s.recvBuf != before {
			r.Label("reuse-swapped")
			reuseArmed[e] = true
		}
	default:
		harnessFail("unknown op %q", op.K)
	}
	return true
}

const c06Rule = "op lists (1-40 ops, both directions of one stream pair) generated against a byte-queue model: WriteBytes/Reserve/WriteByte/WriteString/Write/Flush, " +
	"ReadBytes/Peek/Discard/ReadByte/ReadString/Read/Sync/Release/Reuse with sizes around every slice capacity (0-5, cap-1..cap+1, 2-5 slices, > largest class), hog/unhog pressure; " +
	"non-trivial = a read/peek crossed a slice boundary, or a flushed message had >= 3 slices, or socket fallback was used, or a Reserve larger than the slice kept by ReleaseReadAndReuse; distinct by case hash"

var c06Assumptions = []string{
	"reads are only issued for bytes the model says were flushed (blocking reads are C11's subject)",
	"ReleaseReadAndReuse is only called when the same end has no unflushed output (what the stream pool does)",
	"a read that does not return within 20 s although the bytes were flushed is counted as a violation",
}

func TestVerifC06Pipe(t *testing.T) {
	runCheck(t, checkDef[pipeCase]{name: "TestVerifC06Pipe", rule: c06Rule, assumptions: c06Assumptions, gen: genPipeCase,
		run: func(c pipeCase, r *runCtx) { pipeRun(c, r, nil) }})
}

func TestVerifC06PipeCfg(t *testing.T) {
	runCheck(t, checkDef[pipeCase]{name: "TestVerifC06PipeCfg", rule: c06Rule + "; slice-size configuration and mapping back-end generated per case", assumptions: c06Assumptions,
		gen: genPipeCaseCfg, run: func(c pipeCase, r *runCtx) { pipeRun(c, r, nil) }})
}

var _ = fmt.Sprintf
