//go:build verif

package shmipc

// C11 (real-time part) - every blocking call returns within a bounded time of its releasing event: deadlines (never early),
// Flush against a queue that stays full, AcceptStream on shutdown, handshakes against a silent peer. Engine E2.

import (
	"sync/atomic"
	"testing"
	"time"

	"pgregory.net/rapid"
)

type timingCase struct {
	Kind       string `json:"kind"` // read-deadline | data-vs-deadline | flush-queue-full | accept-shutdown | silent-peer
	Call       string `json:"call"` // ReadBytes | Read | Discard | Peek | ReadByte
	DeadlineMs int    `json:"deadline_ms"`
	OffsetUs   int    `json:"offset_us"`  // data-vs-deadline: data is flushed this long before (-) / after (+) the deadline
	Second     bool   `json:"second"`     // read-deadline: a second blocking read with a new deadline on the same stream (timer reuse)
	WriteDlMs  int    `json:"write_dl_ms"` // flush-queue-full: write deadline (0 = none)
	Client     bool   `json:"client"`     // silent-peer: role of the real end
	MemFd      bool   `json:"memfd"`
}

func genTimingCase(t *rapid.T) timingCase {
	c := timingCase{Kind: rapid.SampledFrom([]string{"read-deadline", "read-deadline", "data-vs-deadline", "data-vs-deadline", "deadline-then-none", "deadline-then-none", "flush-queue-full", "accept-shutdown", "silent-peer"}).Draw(t, "kind")}
	c.Call = rapid.SampledFrom([]string{"ReadBytes", "Read", "Discard", "Peek", "ReadByte"}).Draw(t, "call")
	c.DeadlineMs = rapid.SampledFrom([]int{-5, 0, 1, 5, 20, 60}).Draw(t, "dl")
	c.OffsetUs = rapid.SampledFrom([]int{-2000, -500, -100, 0, 100, 500, 2000}).Draw(t, "off")
	c.Second = rapid.Bool().Draw(t, "second")
	c.WriteDlMs = rapid.SampledFrom([]int{0, 0, 15, 40}).Draw(t, "wdl")
	c.Client = rapid.Bool().Draw(t, "client")
	c.MemFd = rapid.Bool().Draw(t, "memfd")
	if c.Kind == "data-vs-deadline" && c.DeadlineMs < 5 {
		c.DeadlineMs = 5
	}
	if c.Kind == "deadline-then-none" {
		c.DeadlineMs = rapid.SampledFrom([]int{1, 5, 20}).Draw(t, "dl2")
	}
	return c
}

const timingSlack = 2 * time.Second

func blockingRead(st *Stream, call string, n int) (int, error) {
	switch call {
	case "ReadBytes":
		b, err := st.BufferReader().ReadBytes(n)
		return len(b), err
	case "Peek":
		b, err := st.BufferReader().Peek(n)
		return len(b), err
	case "Discard":
		return st.BufferReader().Discard(n)
	case "ReadByte":
		_, err := st.BufferReader().ReadByte()
		if err != nil {
			return 0, err
		}
		return 1, nil
	default:
		return st.Read(make([]byte, n))
	}
}

func timingRun(c timingCase, r *runCtx) {
	r.Label(c.Kind)
	switch c.Kind {
	case "read-deadline", "data-vs-deadline":
		p := getPair(defaultPairCfg, r)
		cs, err := p.c.OpenStream()
		if err != nil {
			harnessFail("OpenStream: %v", err)
		}
		defer func() {
			cs.Close()
			if !p.settle(500*time.Millisecond, r) {
				dropPair(p)
			}
		}()
		cs.BufferWriter().WriteBytes([]byte{1})
		if err := cs.Flush(false); err != nil {
			harnessFail("Flush: %v", err)
		}
		ss := pipeAccept(p, cs.StreamID(), r)
		if ss == nil {
			harnessFail("accept")
		}
		defer ss.Close()
		ss.BufferReader().ReadBytes(1)
		ss.BufferReader().ReleasePreviousRead()
		rounds := 1
		if c.Second && c.Kind == "read-deadline" {
			rounds = 2
		}
		for k := 0; k < rounds; k++ {
			d := time.Duration(c.DeadlineMs) * time.Millisecond
			if k == 1 {
				d = 12 * time.Millisecond // a fresh deadline after an expired one: the read timer is reused
			}
			need := 3
			if c.Call == "ReadByte" {
				need = 1
			}
			t0 := time.Now()
			deadline := t0.Add(d)
			ss.SetReadDeadline(deadline)
			if c.Kind == "data-vs-deadline" {
				go func() {
					time.Sleep(time.Until(deadline.Add(time.Duration(c.OffsetUs) * time.Microsecond)))
					cs.BufferWriter().WriteBytes([]byte{7, 8, 9})
					cs.Flush(false)
				}()
			}
			type res struct {
				n   int
				err error
				at  time.Time
			}
			ch := make(chan res, 1)
			go func() {
				n, err := blockingRead(ss, c.Call, need)
				ch <- res{n, err, time.Now()}
			}()
			select {
			case rr := <-ch:
				if rr.err == nil {
					if c.Kind == "read-deadline" {
						r.Violf("%s returned %d bytes although nothing was ever flushed", c.Call, rr.n)
						return
					}
					r.Label("data-won")
					if c.Call != "Peek" {
						// consumed
					} else {
						ss.BufferReader().Discard(need)
					}
					ss.BufferReader().ReleasePreviousRead()
				} else {
					if rr.err != ErrTimeout {
						r.Violf("%s with a deadline and no (timely) data returned %v, expected the time-out error", c.Call, rr.err)
						return
					}
					r.Label("deadline-won")
					if early := deadline.Sub(rr.at); early > time.Millisecond {
						r.Violf("%s timed out %v BEFORE its deadline (deadline %v after the call)", c.Call, early, d)
						return
					}
					if late := rr.at.Sub(deadline); late > timingSlack && d > 0 || rr.at.Sub(t0) > timingSlack+d && d <= 0 {
						r.Violf("%s timed out %v after its deadline", c.Call, rr.at.Sub(deadline))
						return
					}
					if c.Kind == "data-vs-deadline" {
						// the bytes that lost the race are still delivered to the next read
						ss.SetReadDeadline(time.Now().Add(e2Stall))
						if n, err := blockingRead(ss, "ReadBytes", 3); err != nil || n != 3 {
							r.Violf("after the time-out the 3 bytes flushed around the deadline were not readable: %d, %v", n, err)
							return
						}
						ss.BufferReader().ReleasePreviousRead()
					}
				}
			case <-time.After(d + timingSlack + time.Second):
				r.Violf("%s with a deadline %v away is still blocked %v later", c.Call, d, d+timingSlack+time.Second)
				return
			}
		}
		r.NonTrivial()
	case "deadline-then-none":
		// a read that waited under a deadline (timed out, or got its data in time), then the deadline is cleared, then a read
		// without deadline has to wait for its releasing event (data, peer close, local session close)
		p := getPair(defaultPairCfg, r)
		cs, err := p.c.OpenStream()
		if err != nil {
			harnessFail("OpenStream: %v", err)
		}
		defer func() {
			cs.Close()
			if !p.settle(500*time.Millisecond, r) {
				dropPair(p)
			}
		}()
		cs.BufferWriter().WriteBytes([]byte{1})
		if err := cs.Flush(false); err != nil {
			harnessFail("Flush: %v", err)
		}
		ss := pipeAccept(p, cs.StreamID(), r)
		if ss == nil {
			harnessFail("accept")
		}
		defer ss.Close()
		ss.BufferReader().ReadBytes(1)
		ss.BufferReader().ReleasePreviousRead()
		need := 3
		if c.Call == "ReadByte" {
			need = 1
		}
		d := time.Duration(c.DeadlineMs) * time.Millisecond
		ss.SetReadDeadline(time.Now().Add(d))
		if c.Second {
			// the first read gets its data before the deadline
			go func() {
				time.Sleep(d / 4)
				cs.BufferWriter().WriteBytes([]byte{7, 8, 9})
				cs.Flush(false)
			}()
		}
		if n, err := blockingRead(ss, c.Call, need); err == nil {
			if c.Call == "Peek" {
				ss.BufferReader().Discard(n)
			}
			ss.BufferReader().ReleasePreviousRead()
		} else if c.Second {
			// the data lost the race against the deadline: wait for it, so that nothing is in flight for the read under test
			ss.SetReadDeadline(time.Now().Add(e2Stall))
			if _, err := ss.BufferReader().Peek(3); err != nil {
				r.Violf("3 bytes flushed around a deadline never became readable: %v", err)
				return
			}
		}
		if c.WriteDlMs > 0 {
			ss.SetDeadline(time.Time{})
		} else {
			ss.SetReadDeadline(time.Time{})
		}
		// whatever arrived late for the first read is drained, so that the next read really has to wait
		time.Sleep(d + 2*time.Millisecond)
		ss.pendingData.moveTo(ss.recvBuf)
		if l := ss.recvBuf.Len(); l > 0 {
			ss.BufferReader().Discard(l)
			ss.BufferReader().ReleasePreviousRead()
		}
		release := []string{"data", "peer-close"}[c.OffsetUs&1]
		if c.OffsetUs == 0 {
			release = "peer-close"
		}
		ch := make(chan error, 1)
		go func() {
			_, err := blockingRead(ss, c.Call, need)
			ch <- err
		}()
		time.Sleep(2 * time.Millisecond)
		if release == "data" {
			cs.BufferWriter().WriteBytes([]byte{4, 5, 6})
			cs.Flush(false)
		} else {
			cs.Close()
		}
		select {
		case err := <-ch:
			if release == "data" && err != nil {
				r.Violf("%s without deadline, released by its data, returned %v", c.Call, err)
				return
			}
			if release == "peer-close" && err == nil {
				r.Violf("%s without deadline returned data out of nothing when the peer closed", c.Call)
				return
			}
		case <-time.After(timingSlack + time.Second):
			r.Violf("%s without deadline (after an earlier read under a %v deadline, since cleared) is still blocked %v after its releasing event (%s)", c.Call, d, timingSlack+time.Second, release)
			return
		}
		r.Label("released-by-" + release)
		r.NonTrivial()
	case "flush-queue-full":
		cfg := defaultPairCfg
		cfg.QueueCap = 2
		p := getPair(cfg, r)
		cs, err := p.c.OpenStream()
		if err != nil {
			harnessFail("OpenStream: %v", err)
		}
		// the consumer stalls: its working flag stays set, so no wake-up is sent and nothing is consumed
		q := p.c.queueManager.sendQueue
		atomic.StoreUint32(q.workingFlag, 1)
		defer func() {
			atomic.StoreUint32(q.workingFlag, 0)
			p.c.wakeUpPeer()
			cs.Close()
			if !p.settle(time.Second, r) {
				dropPair(p)
			}
		}()
		full := 0
		for k := 0; k < 4; k++ {
			cs.BufferWriter().WriteBytes([]byte{1, 2, 3})
			if c.WriteDlMs > 0 {
				cs.SetWriteDeadline(time.Now().Add(time.Duration(c.WriteDlMs) * time.Millisecond))
			}
			t0 := time.Now()
			ch := make(chan error, 1)
			go func() { ch <- cs.Flush(false) }()
			select {
			case err := <-ch:
				el := time.Since(t0)
				if err != nil {
					full++
					if err != ErrQueueFull && err != ErrTimeout {
						r.Violf("Flush against a full queue returned %v", err)
						return
					}
					if c.WriteDlMs > 0 && err == ErrTimeout && el < time.Duration(c.WriteDlMs)*time.Millisecond-time.Millisecond {
						r.Violf("Flush timed out after %v, its write deadline was %d ms away", el, c.WriteDlMs)
						return
					}
				}
				if el > timingSlack {
					r.Violf("Flush took %v against a full queue (10 retries of 10 ms are the design)", el)
					return
				}
			case <-time.After(timingSlack + time.Second):
				r.Violf("Flush is still blocked %v after the queue became full", timingSlack+time.Second)
				return
			}
		}
		if full > 0 {
			r.NonTrivial()
			r.Label("flush-saw-full-queue")
		}
	case "accept-shutdown":
		cfg := defaultPairCfg
		cfg.MemFd = c.MemFd
		p := newPair(cfg)
		ch := make(chan error, 1)
		go func() {
			_, err := p.s.AcceptStream()
			ch <- err
		}()
		time.Sleep(time.Duration(200+c.OffsetUs/10) * time.Microsecond)
		if c.Client {
			p.c.Close() // the peer goes away
		} else {
			p.s.Close()
		}
		select {
		case err := <-ch:
			if err == nil {
				r.Violf("AcceptStream returned a stream out of nothing when the session ended")
			}
		case <-waitPokedCh(timingSlack + 2*time.Second):
			r.Violf("AcceptStream is still blocked %v after the session ended", timingSlack+2*time.Second)
		}
		p.close()
		waitPoked(3*time.Second, func() bool { return p.c.IsClosed() && p.s.IsClosed() })
		r.NonTrivial()
	case "silent-peer":
		cc, sc := socketPair()
		cfg := defaultPairCfg
		cfg.MemFd = c.MemFd
		conf := cfg.config()
		conf.InitializeTimeout = 120 * time.Millisecond
		if !c.Client && false {
			_ = sc
		}
		t0 := time.Now()
		ch := make(chan error, 1)
		go func() {
			s, err := newSession(conf, cc, c.Client)
			if s != nil {
				s.Close()
			}
			ch <- err
		}()
		select {
		case err := <-ch:
			el := time.Since(t0)
			fileClient := c.Client && !c.MemFd
			if err == nil && !fileClient {
				r.Violf("handshake against a peer that never says anything succeeded")
			}
			if err != nil && el < conf.InitializeTimeout-5*time.Millisecond {
				r.Label("failed-before-timeout")
			}
			if el > conf.InitializeTimeout+timingSlack {
				r.Violf("handshake against a silent peer returned after %v (InitializeTimeout %v)", el, conf.InitializeTimeout)
			}
		case <-time.After(conf.InitializeTimeout + timingSlack + time.Second):
			r.Violf("handshake against a silent peer is still blocked %v later (InitializeTimeout %v)", conf.InitializeTimeout+timingSlack+time.Second, conf.InitializeTimeout)
		}
		sc.Close()
		r.NonTrivial()
	}
}

// waitPokedCh: a timer channel during which the dispatcher is kept awake (Session.Close completes on the event loop)
func waitPokedCh(d time.Duration) <-chan struct{} {
	ch := make(chan struct{})
	go func() {
		deadline := time.Now().Add(d)
		for time.Now().Before(deadline) {
			pokeDispatcher()
			time.Sleep(time.Millisecond)
		}
		close(ch)
	}()
	return ch
}

func TestVerifC11Timing(t *testing.T) {
	runCheck(t, checkDef[timingCase]{name: "TestVerifC11Timing", lastCase: true,
		rule: "generated (blocking call, releasing event, offset) triples on the real runtime: ReadBytes/Read/Discard/Peek/ReadByte with a read deadline (-5..60 ms away, reused timers) and no data; data flushed -2..+2 ms around the deadline; Flush against a queue of capacity 2 whose consumer is stalled, with and without a write deadline; AcceptStream when either session closes; client/server handshake against a peer that never speaks; " +
			"oracle: a time-out is reported with the time-out error, never more than 1 ms before the deadline and within 2 s after it; Flush returns (full or timed out) within 2 s; AcceptStream and handshakes return with an error within 2 s of shutdown / InitializeTimeout; bytes that lose the race against a deadline are delivered to the next read; " +
			"non-trivial = a blocking call was actually released by the generated event; distinct by case hash",
		assumptions: []string{"wall-clock bounds with 2 s slack over designs of <= 110 ms; a machine stalled for longer would show as a violation"},
		gen:         genTimingCase, run: timingRun})
}
