//go:build verif

package shmipc

// C10 / C20 / C11 (schedule parts) on the E1 stream scenarios.

import (
	"bytes"
	"fmt"
	"os"
	"strings"
	"testing"
	"time"

	"pgregory.net/rapid"
)

// ---------- C10: close is final, propagates, reported once ----------

func genC10Sim(t *rapid.T) streamsCase {
	c := streamsCase{Cfg: defaultSimCfg}
	c.Cfg.QueueCap = 64
	var st sStream
	nf := rapid.IntRange(1, 2).Draw(t, "nflush") // at least one flush, so that the server learns about the stream
	for j := 0; j < nf; j++ {
		st.C.Prog = append(st.C.Prog, sOp{K: "flush", N: rapid.SampledFrom([]int{1, 10, 65}).Draw(t, "n"), FB: rapid.IntRange(0, 5).Draw(t, "fb") == 0})
	}
	cmode := rapid.SampledFrom([]string{"close", "close", "close-twice", "two-closers", "none", "read-then-close"}).Draw(t, "cmode")
	switch cmode {
	case "close":
		st.C.Prog = append(st.C.Prog, sOp{K: "close"})
	case "close-twice":
		st.C.Prog = append(st.C.Prog, sOp{K: "close"}, sOp{K: "close"})
	case "two-closers":
		// both closers start when the writer is done and nothing moves any more, then race each other
		// (Close racing an active writer/reader of the same stream end is known finding close-races-active-user)
		st.C.Prog = append(st.C.Prog, sOp{K: "quiet"}, sOp{K: "close"})
		st.C.Prog2 = []sOp{{K: "quiet"}, {K: "close"}}
	case "read-then-close":
		st.C.Prog = append(st.C.Prog, sOp{K: "readall"}, sOp{K: "close"})
	}
	if cmode != "read-then-close" && rapid.IntRange(0, 3).Draw(t, "ccb") == 0 {
		st.C.CB = []cbPolicy{{Take: 0}}
	}
	smode := rapid.SampledFrom([]string{"readall", "readall-close", "close-now", "cb", "cb-close-inside", "readall+closer", "close-then-read"}).Draw(t, "smode")
	switch smode {
	case "close-then-read":
		// the reader closes while the writer may still be flushing, and reads again afterwards: whatever arrives during or after
		// the close must not be handed out any more
		st.S.Prog = []sOp{{K: "close"}, {K: "readn", N: 1}}
	case "readall":
		st.S.Prog = []sOp{{K: "readall"}}
	case "readall-close":
		st.S.Prog = []sOp{{K: "readall"}, {K: "close"}}
	case "close-now":
		st.S.Prog = []sOp{{K: "close"}}
	case "cb":
		st.S.CB = []cbPolicy{{Take: rapid.IntRange(0, 3).Draw(t, "take")}}
	case "cb-close-inside":
		st.S.CB = []cbPolicy{{Take: rapid.IntRange(0, 3).Draw(t, "take"), Close: true}}
	case "readall+closer":
		st.S.Prog = []sOp{{K: "readall"}}
		st.S.Prog2 = []sOp{{K: "quiet"}, {K: "close"}}
	}
	// afterwards the session itself may end (locally or through the peer) while the stream is in whatever close state it reached:
	// the closure must still have been reported exactly once
	if k := rapid.IntRange(0, 3).Draw(t, "sessionend"); k == 1 || k == 2 {
		c.SessEnd = k
	}
	c.Streams = []sStream{st}
	c.Sched = genSchedPlanHot(t, 8, 1500, 3, 150)
	return c
}

func caseEndsSession(c streamsCase) bool {
	if c.SessEnd != 0 {
		return true
	}
	for _, st := range c.Streams {
		for _, p := range [][]sOp{st.C.Prog, st.C.Prog2, st.S.Prog, st.S.Prog2} {
			for _, op := range p {
				if op.K == "sclose" {
					return true
				}
			}
		}
	}
	return false
}

func closedErr(s string) bool {
	return s == ErrStreamClosed.Error() || s == ErrEndOfStream.Error()
}

func judgeC10Sim(c streamsCase, h *streamsHist, r *runCtx) {
	if h.viol != "" {
		r.Violf("%s\nlast scheduling points: %v", h.viol, h.sc.Tail(30))
		return
	}
	tail := func() string { return fmt.Sprintf("\n%s\nlast scheduling points: %v", h.worldState(), h.sc.Tail(30)) }
	names := []string{"client", "server"}
	ends := h.ends[0]
	for e := 0; e < 2; e++ {
		eh := ends[e]
		if eh.stream == nil {
			continue
		}
		if !stateSeqOK(eh.states) {
			r.Violf("%s end: stream state went %v (0 open, 2 half-closed, 1 closed): not a forward path%s", names[e], eh.states, tail())
			return
		}
		for k, ret := range eh.closeRet {
			// (when the scenario ends a session, a Close that cannot notify the vanishing peer may say so)
			if ret != "<nil>" && !caseEndsSession(c) {
				r.Violf("%s end: Close call #%d returned %s%s", names[e], k, ret, tail())
				return
			}
		}
		if eh.onLocal > 1 || eh.onRemote > 1 || eh.onLocal+eh.onRemote > 1 {
			r.Violf("%s end: OnLocalClose fired %d times, OnRemoteClose %d times for one stream%s", names[e], eh.onLocal, eh.onRemote, tail())
			return
		}
	}
	// quiescent facts
	for e := 0; e < 2; e++ {
		eh, peer := ends[e], ends[1-e]
		if eh.stream == nil {
			continue
		}
		sess := h.w.client
		if e == 1 {
			sess = h.w.server
		}
		allDone := eh.progDone[0] && eh.progDone[1]
		hasCB := (e == 0 && len(c.Streams[0].C.CB) > 0) || (e == 1 && len(c.Streams[0].S.CB) > 0)
		if eh.closeCalled && allDone {
			st := eh.stream.getStreamState()
			if st != uint32(streamClosed) {
				sig := ""
				if eh.closedLocallyAt >= 0 && hasCB && eh.onData > 0 {
					sig = "close-inside-callback"
				}
				msg := fmt.Sprintf("%s end: Close was called and returned, nothing is in flight, but the stream state is %d (not closed)%s", names[e], st, tail())
				if sig != "" {
					r.ViolSig(sig, "%s", msg)
				} else {
					r.Violf("%s", msg)
				}
				return
			}
			sess.streamLock.Lock()
			_, active := sess.streams[eh.stream.id]
			sess.streamLock.Unlock()
			if active {
				r.Violf("%s end: stream still counts as active after its Close returned%s", names[e], tail())
				return
			}
			// the peer must have learned about it (if it ever knew the stream and has not closed itself)
			if peer.stream != nil && !peer.closeCalled {
				if ps := peer.stream.getStreamState(); ps == uint32(streamOpened) {
					r.Violf("%s end closed the stream and nothing is in flight, but the %s end still sees it open (never notified)%s", names[e], names[1-e], tail())
					return
				}
			}
			if hasCB && eh.onLocal+eh.onRemote != 1 {
				r.Violf("%s end (callback mode) closed the stream: OnLocalClose fired %d times, OnRemoteClose %d times, expected exactly one in total%s", names[e], eh.onLocal, eh.onRemote, tail())
				return
			}
		}
		if !eh.closeCalled && hasCB && peer.closeCalled && peer.progDone[0] && peer.progDone[1] && eh.stream.getStreamState() != uint32(streamOpened) {
			if eh.onRemote != 1 || eh.onLocal != 0 {
				r.Violf("%s end (callback mode) was closed by the peer: OnRemoteClose fired %d times, OnLocalClose %d times%s", names[e], eh.onRemote, eh.onLocal, tail())
				return
			}
		}
		// a reader on the peer of a closed end must have been released with a closed-stream error after draining
		if peer.closeCalled && peer.progDone[0] && eh.readDone && !closedErr(eh.readErr) {
			r.Violf("%s end: read ended with %q after the peer closed (expected end of stream / stream closed)%s", names[e], eh.readErr, tail())
			return
		}
	}
	// every application thread finished: a close on either end releases blocked readers
	anyClose := ends[0].closeCalled || ends[1].closeCalled
	if anyClose {
		if b := h.blockedApps(); len(b) > 0 && ends[1].stream != nil {
			// a server reader stays blocked legitimately only if nobody closed... somebody did
			r.Violf("a Close was issued and nothing is in flight, but application threads are still blocked inside stream calls: %v%s", b, tail())
			return
		}
	}
	// post-mortem API behaviour on closed ends (plain goroutine, no scheduler)
	for e := 0; e < 2; e++ {
		eh := ends[e]
		if eh.stream == nil || !eh.closeCalled || !(eh.progDone[0] && eh.progDone[1]) {
			continue
		}
		st := eh.stream
		st.BufferWriter().WriteByte(1)
		if err := st.Flush(false); err != ErrStreamClosed {
			r.Violf("%s end: Flush after Close returned %v%s", names[e], err, tail())
			return
		}
		st.SetReadDeadline(time.Now().Add(30 * time.Millisecond))
		if _, err := st.BufferReader().ReadBytes(1); err == nil || !closedErr(err.Error()) {
			r.Violf("%s end: ReadBytes after Close returned %v (expected a closed-stream error)%s", names[e], err, tail())
			return
		}
		if err := st.Close(); err != nil {
			r.Violf("%s end: repeated Close returned %v%s", names[e], err, tail())
			return
		}
	}
	both := ends[0].closeCalled && ends[1].closeCalled
	if both {
		r.Label("both-ends-closed")
	}
	if len(c.Streams[0].C.Prog2) > 0 || len(c.Streams[0].S.Prog2) > 0 {
		r.Label("two-local-closers")
	}
	if ends[1].closedLocallyAt >= 0 && len(c.Streams[0].S.CB) > 0 {
		r.Label("close-inside-callback")
	}
	if h.obs.preemptions > 0 && (both || r.labels["two-local-closers"] || r.labels["close-inside-callback"]) {
		r.NonTrivial()
	}
}

func TestVerifC10Sim(t *testing.T) {
	runCheck(t, checkDef[streamsCase]{name: "TestVerifC10Sim", replayTries: 5,
		rule: "one stream on the hand-wired session pair; client: 1-2 flushes then close / close twice / two concurrent closers / read then close / nothing, sync or callback mode; server: read to end, read then close, close at once, callback mode, Close inside OnData, reader plus concurrent closer; generated schedule (PCT depth<=3 over hot points, preemption lists, random walk); " +
			"oracle: state sequence sampled at every step is a forward path, Close returns nil, closed stream not active, peer notified at quiescence, exactly one close callback, blocked readers released with a closed-stream error, Flush/Read/Close after Close; " +
			"non-trivial = two closures overlapped (both ends, or two local closers) or Close was issued inside a callback, with at least one pre-emptive switch; distinct by case hash",
		assumptions: []string{"sequentially consistent execution at statement granularity", "epoll loop and socket replaced by event-loop virtual threads and an in-memory byte pipe"},
		gen:         genC10Sim, run: func(c streamsCase, r *runCtx) { judgeC10Sim(c, runStreams(c, r), r) }})
}

// ---------- C20: callback mode offers every byte once, in order, serially ----------

func genC20Sim(t *rapid.T) streamsCase {
	c := streamsCase{Cfg: defaultSimCfg}
	c.Cfg.QueueCap = 64
	var st sStream
	nm := rapid.IntRange(1, 5).Draw(t, "nmsg")
	total := 0
	for j := 0; j < nm; j++ {
		n := rapid.SampledFrom([]int{1, 2, 10, 64, 65, 200}).Draw(t, "n")
		total += n
		st.C.Prog = append(st.C.Prog, sOp{K: "flush", N: n, FB: rapid.IntRange(0, 7).Draw(t, "fb") == 0})
	}
	npol := rapid.IntRange(1, 3).Draw(t, "npol")
	for k := 0; k < npol; k++ {
		st.S.CB = append(st.S.CB, cbPolicy{Take: rapid.SampledFrom([]int{0, 0, 1, 2, 7, 64}).Draw(t, "take"),
			More: rapid.SampledFrom([]int{0, 0, 0, 1, 5, 64}).Draw(t, "more")})
	}
	ends := []string{"open", "open", "ack-then-close", "peer-close", "peer-close", "server-closes-inside", "server-closer-thread"}
	switch rapid.SampledFrom(ends).Draw(t, "end") {
	case "peer-close":
		st.C.Prog = append(st.C.Prog, sOp{K: "close"}) // the peer closes right after its last flush
	case "ack-then-close":
		// the peer closes only after the callback side acknowledged everything
		st.S.AckAt = total
		st.C.Prog = append(st.C.Prog, sOp{K: "readn", N: 1}, sOp{K: "close"})
	case "server-closes-inside":
		st.S.CB[rapid.IntRange(0, npol-1).Draw(t, "closepol")].Close = true
	case "server-closer-thread":
		st.S.Prog2 = []sOp{{K: "yield"}, {K: "close"}} // callback mode: the application does not read outside OnData
	}
	c.Streams = []sStream{st}
	c.Sched = genSchedPlanHot(t, 8, 2000, 3, 200)
	return c
}

func judgeC20Sim(c streamsCase, h *streamsHist, r *runCtx) {
	if h.viol != "" {
		r.Violf("%s\nlast scheduling points: %v", h.viol, h.sc.Tail(30))
		return
	}
	tail := func() string { return fmt.Sprintf("\n%s\nlast scheduling points: %v", h.worldState(), h.sc.Tail(30)) }
	ce, se := h.ends[0][0], h.ends[0][1]
	if se.waitedInOnData > 0 {
		r.Label("ondata-waited-for-more-bytes")
	}
	if se.maxInOnData > 1 {
		r.Violf("OnData ran %d times concurrently for one stream%s", se.maxInOnData, tail())
		return
	}
	if !bytes.HasPrefix(ce.flushed, se.read) {
		r.Violf("bytes offered to OnData (%d) are not a prefix of the %d bytes flushed: first difference at %d (repeated, reordered or invented data)%s", len(se.read), len(ce.flushed), firstDiff(ce.flushed, se.read), tail())
		return
	}
	if se.onDataAfterLocalClose {
		r.Violf("an OnData invocation started after the stream had been closed locally (%s)%s", se.afterCloseTrace, tail())
		return
	}
	if se.stream != nil && !se.closeCalled && len(se.read) != len(ce.flushed) {
		msg := fmt.Sprintf("quiescent: %d bytes flushed by the peer, only %d were ever offered to OnData although the stream was not closed locally (state %d, %d invocations)%s",
			len(ce.flushed), len(se.read), se.stream.getStreamState(), se.onData, tail())
		if ce.closeCalled {
			r.ViolSig("cb-data-then-remote-close", "%s", msg)
		} else {
			r.Violf("%s", msg)
		}
		return
	}
	if se.stream == nil && len(ce.flushed) > 0 {
		r.Violf("quiescent: %d bytes flushed but the server never saw the stream%s", len(ce.flushed), tail())
		return
	}
	if se.closeCalled {
		r.Label("closed-locally")
	}
	if ce.closeCalled {
		r.Label("peer-closed")
	}
	if se.onData > 1 {
		r.Label("several-invocations")
	}
}

func TestVerifC20Sim(t *testing.T) {
	var window bool
	runCheck(t, checkDef[streamsCase]{name: "TestVerifC20Sim", replayTries: 5,
		rule: "one stream, server end in callback mode (callbacks installed when the stream surfaces, before data is filled in), peer flushes 1-5 messages (sizes 1-200, some through the socket fallback), OnData policy generated per invocation (consume 1, 2, 7, 64 or everything), optional Close inside OnData / from another thread / peer close after an acknowledgement; generated schedule; " +
			"oracle: OnData never concurrent, consumed bytes are a prefix of the flushed bytes and equal at quiescence unless closed locally, no OnData after local Close; " +
			"non-trivial = the callback goroutine was pre-empted inside its hand-off code (between moveTo and the re-take of the in-process flag) while the event loop was delivering; distinct by case hash",
		assumptions: []string{"sequentially consistent execution at statement granularity", "OnData always consumes at least one byte (the by-design re-invocation loop would not terminate otherwise)"},
		gen:         genC20Sim,
		run: func(c streamsCase, r *runCtx) {
			window = false
			h := runStreamsObs(c, r, func(h *streamsHist) {
				h.obs.onSwitch = func(from, to int, pre bool) {
					if pre && h.sc.ThreadName(from) == "go" && strings.Contains(h.sc.LastPoint(from), "fillDataToReadBuffer") {
						window = true
					}
				}
			})
			judgeC20Sim(c, h, r)
			if window && !r.Failed() {
				r.NonTrivial()
			}
		}})
}

// ---------- C11: no call blocks for ever (missed-notification part) ----------

func genC11Sim(t *rapid.T) streamsCase {
	c := streamsCase{Cfg: defaultSimCfg}
	c.Cfg.QueueCap = 64
	var st sStream
	need := rapid.SampledFrom([]int{1, 2, 10, 65, 130}).Draw(t, "need")
	st.S.Prog = []sOp{{K: rapid.SampledFrom([]string{"readn", "readn", "readall"}).Draw(t, "rk"), N: need}}
	// the first flush makes the stream known to the server; then the releasing event
	st.C.Prog = []sOp{{K: "flush", N: 1}}
	release := rapid.SampledFrom([]string{"data", "data", "peer-close", "local-close", "client-session-close", "server-session-close"}).Draw(t, "release")
	switch release {
	case "data":
		left := need - 1
		for left > 0 {
			n := rapid.IntRange(1, left).Draw(t, "chunk")
			st.C.Prog = append(st.C.Prog, sOp{K: "flush", N: n})
			left -= n
		}
		if st.S.Prog[0].K == "readall" {
			st.C.Prog = append(st.C.Prog, sOp{K: "close"})
		}
	case "peer-close":
		st.C.Prog = append(st.C.Prog, sOp{K: "close"})
	case "local-close":
		st.S.Prog2 = []sOp{{K: "quiet"}, {K: "close"}}
	case "client-session-close":
		st.C.Prog = append(st.C.Prog, sOp{K: "quiet"}, sOp{K: "sclose"})
	case "server-session-close":
		st.S.Prog2 = []sOp{{K: "quiet"}, {K: "sclose"}}
	}
	if rapid.IntRange(0, 3).Draw(t, "cbreader") == 0 {
		// the waiting reader is an OnData invocation that asked for more bytes than have arrived (a message spanning flushes)
		st.S.Prog = nil
		st.S.CB = []cbPolicy{{Take: 0, More: need}}
		// (released by data: the wait is for bytes that do come; otherwise for bytes that never come)
		st.S.WaitBeyond = release != "data"
	}
	c.Streams = []sStream{st}
	c.Sched = genSchedPlanHot(t, 8, 1500, 3, 150)
	return c
}

func judgeC11Sim(c streamsCase, h *streamsHist, r *runCtx) {
	if h.viol != "" {
		r.Violf("%s\nlast scheduling points: %v", h.viol, h.sc.Tail(30))
		return
	}
	ce, se := h.ends[0][0], h.ends[0][1]
	clientDone := ce.progDone[0] && ce.progDone[1]
	if !clientDone {
		r.Violf("client thread never finished; blocked: %v; %s\nlast scheduling points: %v", h.res.Blocked, h.worldState(), h.sc.Tail(30))
		return
	}
	if b := h.blockedApps(); len(b) > 0 {
		r.Violf("the releasing event happened and nothing is in flight, but these application threads are still blocked inside stream calls: %v (reader got %d bytes, stream state %d); %s\nlast scheduling points: %v",
			b, len(se.read), func() uint32 {
				if se.stream != nil {
					return se.stream.getStreamState()
				}
				return 99
			}(), h.worldState(), h.sc.Tail(30))
		return
	}
	if se.readDone && se.readErr != "" {
		r.Label("released-by-" + se.readErr)
	} else if se.readDone {
		r.Label("released-by-data")
	}
	if h.obs.preemptions > 0 {
		r.NonTrivial()
	}
}

func TestVerifC11Sim(t *testing.T) {
	runCheck(t, checkDef[streamsCase]{name: "TestVerifC11Sim", replayTries: 5,
		rule: "a server-side reader thread blocks in ReadBytes(n) or Read; the releasing event is generated: the missing bytes in 1-3 flushes, peer Close, local Close from another thread, Session.Close of either end; generated schedule exploring the window between the reader's last re-check and its wait; " +
			"oracle at quiescence (nothing in flight, event loops idle): no application thread is still blocked inside a stream call; " +
			"non-trivial = at least one pre-emptive switch; distinct by case hash",
		assumptions: []string{"sequentially consistent execution at statement granularity", "no deadlines here (real timers are judged by the free-running part)"},
		gen:         genC11Sim, run: func(c streamsCase, r *runCtx) { judgeC11Sim(c, runStreams(c, r), r) }})
}

// ---------- C14 (schedule part): session close / connection loss releases every blocked call ----------

func genC14Sim(t *rapid.T) streamsCase {
	c := streamsCase{Cfg: defaultSimCfg}
	c.Cfg.QueueCap = 64
	ns := rapid.IntRange(1, 2).Draw(t, "nstreams")
	who := rapid.SampledFrom([]string{"client-session-close", "server-session-close"}).Draw(t, "who")
	for i := 0; i < ns; i++ {
		var st sStream
		need := rapid.SampledFrom([]int{2, 10, 65}).Draw(t, "need")
		st.C.Prog = []sOp{{K: "flush", N: 1}}
		st.S.Prog = []sOp{{K: rapid.SampledFrom([]string{"readn", "readall"}).Draw(t, "rk"), N: need}}
		if rapid.Bool().Draw(t, "creader") {
			st.C.Prog = append(st.C.Prog, sOp{K: "readn", N: 3}) // the client blocks as well: nothing is ever sent back
		}
		c.Streams = append(c.Streams, st)
	}
	if rapid.IntRange(0, 2).Draw(t, "cbflush") == 0 {
		// callback goroutines are the one kind of active user the teardown waits for: a server callback that answers (Flush) while
		// the connection goes away under it. The client closes its session from the thread that flushed (no call of its own is active).
		var st sStream
		n := rapid.SampledFrom([]int{1, 10, 65}).Draw(t, "n")
		st.C.Prog = []sOp{{K: "flush", N: n}, {K: "yield"}, {K: "sclose"}}
		st.S.CB = []cbPolicy{{Take: rapid.SampledFrom([]int{0, 1}).Draw(t, "take")}}
		st.S.AckAt = rapid.IntRange(1, n).Draw(t, "ack_at")
		c.Streams = []sStream{st}
		c.Sched = genSchedPlanHot(t, 10, 1500, 3, 150)
		return c
	}
	// the closer acts when every reader is blocked in its wait (an *active* call racing the teardown is known finding D20)
	closer := []sOp{{K: "quiet"}, {K: "sclose"}}
	if os.Getenv("VERIF_PROBE_D20") != "" {
		closer = []sOp{{K: "yield"}, {K: "sclose"}}
	}
	if who == "client-session-close" {
		c.Streams[0].C.Prog2 = closer
	} else {
		c.Streams[0].S.Prog2 = closer
	}
	c.Sched = genSchedPlanHot(t, 10, 1500, 3, 150)
	return c
}

func judgeC14Sim(c streamsCase, h *streamsHist, r *runCtx) {
	if h.res.Panic {
		pat := false
		for _, p := range []string{"linkedBuffer", "sliceList", "bufferSlice", "bufferList", "bufferManager", "pendingData", "sendQueue", "wakeUpPeer", "(*queue)"} {
			if strings.Contains(h.res.Err, p) {
				pat = true
			}
		}
		if pat {
			r.ViolSig("close-races-active-user", "a stream call that was active while the session was torn down crashed:\n%s", h.res.Err)
			return
		}
	}
	if h.viol != "" {
		r.Violf("%s\nlast scheduling points: %v", h.viol, h.sc.Tail(30))
		return
	}
	if b := h.blockedApps(); len(b) > 0 {
		r.Violf("a session was closed and nothing is in flight, but application threads are still blocked inside stream calls: %v; %s\nlast scheduling points: %v", b, h.worldState(), h.sc.Tail(30))
		return
	}
	if !h.w.client.IsClosed() || !h.w.server.IsClosed() {
		r.Violf("one session was closed; at quiescence client closed=%v server closed=%v (the peer must notice the loss of the connection)", h.w.client.IsClosed(), h.w.server.IsClosed())
		return
	}
	for i := range h.ends {
		for e := 0; e < 2; e++ {
			eh := h.ends[i][e]
			if eh.readDone && eh.readErr == "" && len(eh.read) == 0 {
				r.Violf("stream %d end %d: a read returned without data and without error after the session ended", h.ids[i], e)
				return
			}
		}
	}
	if h.obs.preemptions > 0 {
		r.NonTrivial()
	}
}

func TestVerifC14Sim(t *testing.T) {
	runCheck(t, checkDef[streamsCase]{name: "TestVerifC14Sim", replayTries: 5,
		rule: "1-2 streams with readers blocked on both ends; Session.Close of the client or of the server once every reader waits; generated schedule over the teardown path (shutdown notification, event-loop lambda, connection loss seen by the peer); " +
			"oracle at quiescence: no application thread is still blocked, both sessions are closed, no read returned empty-handed without an error; non-trivial = at least one pre-emptive switch; distinct by case hash",
		assumptions: []string{"sequentially consistent execution at statement granularity", "known finding D20 (a call that is *active* while its session is torn down) is excluded by letting the closer act at quiescence; its probe is replayed on every run"},
		gen:         genC14Sim, run: func(c streamsCase, r *runCtx) { judgeC14Sim(c, runStreams(c, r), r) }})
}

// ---------- C19 (probe of known finding D20 only): a stream Close while the session is torn down because the peer went away ----------
// net.Conn.Close of the adapter is Stream.Close; when the listener (or the peer) has just closed, the client session tears itself
// down on the event loop. This test is never searched by the C19 check (0 cases in both tiers); it exists so that the probe of the
// known finding can be replayed - and re-found with VERIF_PROBE_D20=1 should the tree change.

func genC19TeardownProbe(t *rapid.T) streamsCase {
	c := streamsCase{Cfg: defaultSimCfg}
	c.Cfg.QueueCap = 64
	var st sStream
	st.C.Prog = []sOp{{K: "flush", N: 1}, {K: "yield"}, {K: "close"}}
	st.S.Prog2 = []sOp{{K: "yield"}, {K: "sclose"}} // (no server reader: only the client's Close can be caught by the teardown)
	c.Streams = []sStream{st}
	c.Sched = genSchedPlanHot(t, 10, 1500, 3, 150)
	return c
}

func TestVerifC19TeardownProbe(t *testing.T) {
	runCheck(t, checkDef[streamsCase]{name: "TestVerifC19TeardownProbe", replayTries: 5,
		rule:        "probe only: client flushes one byte and closes its stream while the server closes the session; generated schedule",
		assumptions: []string{"sequentially consistent execution at statement granularity"},
		gen:         genC19TeardownProbe, run: func(c streamsCase, r *runCtx) { judgeC14Sim(c, runStreams(c, r), r) }})
}

// ---------- C09 (schedule part): request / response where a callback closes the stream on the answer ----------
// The writer's Flush may still be on its way (the peer can answer as soon as the element is in the queue) when the callback
// goroutine of the same end closes the stream: whatever the interleaving, no buffer may be recycled twice (D24) or be left behind.

func genC09Sim(t *rapid.T) streamsCase {
	c := streamsCase{Cfg: defaultSimCfg}
	c.Cfg.QueueCap = 64
	var st sStream
	n := rapid.SampledFrom([]int{1, 10, 65, 130}).Draw(t, "req")
	m := rapid.SampledFrom([]int{1, 10, 65}).Draw(t, "resp")
	fb := rapid.IntRange(0, 5).Draw(t, "fb") == 0
	if rapid.IntRange(0, 2).Draw(t, "dir") != 0 {
		// the client asks, the server (synchronous or callback mode) answers, the client's callback closes on the answer
		st.C.Prog = []sOp{{K: "flush", N: n, FB: fb}}
		st.C.CB = []cbPolicy{{Take: rapid.SampledFrom([]int{0, 0, 1}).Draw(t, "take"), Close: true}}
		if rapid.Bool().Draw(t, "scb") {
			st.S.CB = []cbPolicy{{Take: 0}}
			st.S.AckAt = rapid.IntRange(1, n).Draw(t, "ack_at")
			st.S.Prog2 = []sOp{{K: "quiet"}, {K: "close"}}
		} else {
			st.S.Prog = []sOp{{K: "readn", N: n}, {K: "flush", N: m}, {K: "quiet"}, {K: "close"}}
		}
	} else {
		// the client opens with one byte, the server asks, the client answers, the server's callback closes on the answer
		st.C.Prog = []sOp{{K: "flush", N: 1}, {K: "readn", N: n}, {K: "flush", N: m}, {K: "quiet"}, {K: "close"}}
		st.S.CB = []cbPolicy{{Take: 0}, {Take: rapid.SampledFrom([]int{0, 0, 1}).Draw(t, "take"), Close: true}}
		st.S.Prog = []sOp{{K: "flush", N: n, FB: fb}}
	}
	c.Streams = []sStream{st}
	if rapid.Bool().Draw(t, "busy") {
		// a second stream keeps the peer's queue consumer busy: then the request is seen without the wake-up that Flush sends last,
		// i.e. the answer (and the Close it triggers) can arrive while that Flush is still between the queue and its own clean-up
		var b sStream
		k := rapid.IntRange(1, 3).Draw(t, "busy_msgs")
		for j := 0; j < k; j++ {
			b.C.Prog = append(b.C.Prog, sOp{K: "flush", N: rapid.SampledFrom([]int{1, 10, 65}).Draw(t, "bn")})
		}
		b.C.Prog = append(b.C.Prog, sOp{K: "close"})
		b.S.Prog = []sOp{{K: "readall"}, {K: "close"}}
		c.Streams = append(c.Streams, b)
	}
	c.Sched = genSchedPlanHot(t, 8, 1500, 3, 150)
	return c
}

func judgeC09Sim(c streamsCase, h *streamsHist, r *runCtx) {
	if h.viol != "" {
		r.Violf("%s\nlast scheduling points: %v", h.viol, h.sc.Tail(30))
		return
	}
	var free, caps []int
	over := false
	for _, l := range h.w.client.bufferManager.lists {
		free = append(free, int(*l.size))
		caps = append(caps, int(*l.cap))
		if uint32(*l.size) > *l.cap {
			over = true
		}
	}
	if over {
		r.Violf("free slots per size class %v exceed the capacities %v: a buffer was recycled twice\n%s\nlast scheduling points: %v", free, caps, h.worldState(), h.sc.Tail(30))
		return
	}
	closedBoth := true
	for i := range h.ends {
		for e := 0; e < 2; e++ {
			eh := h.ends[i][e]
			if eh.stream == nil || !eh.closeCalled || !eh.progDone[0] || !eh.progDone[1] || eh.stream.getStreamState() != uint32(streamClosed) {
				closedBoth = false
			}
		}
	}
	if closedBoth {
		r.Label("both-ends-closed")
		if !h.w.allFree() {
			r.Violf("both ends closed the stream and nothing is in flight, but the free slots per size class are %v, the capacities %v\n%s\nlast scheduling points: %v", free, caps, h.worldState(), h.sc.Tail(30))
			return
		}
	}
	if h.obs.preemptions > 0 && closedBoth {
		r.NonTrivial()
	}
}

func TestVerifC09Sim(t *testing.T) {
	runCheck(t, checkDef[streamsCase]{name: "TestVerifC09Sim", replayTries: 5,
		rule: "one stream, request/response in either direction (shared memory or socket fallback), the asking end in callback mode closing the stream inside OnData on the answer while its own Flush of the request may not have returned, the answering end synchronous or in callback mode; generated schedule (PCT depth<=3 over hot points, preemption lists, random walk); " +
			"oracle at quiescence: the free count of no size class exceeds its capacity, and equals it once both ends are closed; non-trivial = both ends closed and at least one pre-emptive switch; distinct by case hash",
		assumptions: []string{"sequentially consistent execution at statement granularity", "epoll loop and socket replaced by event-loop virtual threads and an in-memory byte pipe"},
		gen:         genC09Sim, run: func(c streamsCase, r *runCtx) { judgeC09Sim(c, runStreams(c, r), r) }})
}
