//go:build verif

package shmipc

// Engine E2, free-running stream scenarios ("real" parts of C07, C10, C20): the same questions as the E1 stream scenarios, but on
// real sessions - real goroutines, the real epoll dispatcher, a real socket for the fallback path - with 1..6 streams running at
// once over one session pair whose shared memory is small enough to run out. Schedules are whatever the runtime produces (GOMAXPROCS
// and the amount of concurrency are part of the case); the oracles only use facts that hold under every schedule.
//
// Scenario language (per stream): a writer end (client or server) flushes generated chunks and then closes, closes twice, or waits
// for the reader's close; the reader end reads to end-of-stream, or closes early after k bytes, or runs in callback mode with a
// generated OnData policy (how much to take per call, when to Close inside the callback).
// No program ever tears the session down or closes a stream under its own active reader (known finding D20 territory, C14).

import (
	"fmt"
	"os"
	"runtime"
	"sync"
	"sync/atomic"
	"testing"
	"time"

	"pgregory.net/rapid"
)

type rsStream struct {
	WServer bool       `json:"w_server,omitempty"` // the writer is the server end (the client sends a one-byte opener first)
	Chunks  []int      `json:"chunks"`             // sizes of the writer's flushes
	Yield   []int      `json:"yield,omitempty"`    // chunk indexes before which the writer yields the processor
	WClose  string     `json:"w_close"`            // close | close2 | wait (wait for the reader's close, then close)
	Reader  string     `json:"reader"`             // readall | early | cb
	EarlyAt int        `json:"early_at,omitempty"` // early: bytes read before the reader closes
	ReadBuf int        `json:"read_buf,omitempty"` // readall: size of the Read buffer
	CB      []cbPolicy `json:"cb,omitempty"`
	// cb without a closing policy: "remote" = the application closes after OnRemoteClose was seen, "end" = only when the case is over
	CBClose string `json:"cb_close,omitempty"`
}

type rsCase struct {
	Cfg     pairCfg    `json:"cfg"`
	Procs   int        `json:"procs"`
	Streams []rsStream `json:"streams"`
	// Keep >= 0: all but Keep slots of every size class are taken away for the duration of the case, so that concurrent streams
	// run out of shared memory and messages go partly or wholly over the socket (fallback path)
	Keep int `json:"keep"`
}

type rsEnd struct {
	mu        sync.Mutex
	stream    *Stream
	flushed   []byte
	flushErr  string
	read      []byte
	readErr   string
	closeRet  []string
	closed    bool // Close was called by this end's application
	onData    int
	onLocal   int
	onRemote  int
	inCB      int32
	overlap   bool
	postFlush string // result of a Flush attempted after the local Close returned
	postRead  string
	ghost     bool
	surfaced  chan struct{}
}

type rsWorld struct {
	p      *pairT
	mu     sync.Mutex
	idx    map[uint32]int
	ends   [][2]*rsEnd // [stream][0 writer, 1 reader]
	c      *rsCase
	ghosts int32
	waited int32
	hung   bool
	viol   atomic.Value
}

var rsCur atomic.Value // *rsWorld of the running case (the listen callback of the shared pairs dispatches on it)

type rsListen struct{}

func (rsListen) OnShutdown(reason string) {}
func (rsListen) OnNewStream(s *Stream) {
	w, _ := rsCur.Load().(*rsWorld)
	if w == nil || w.p == nil || s.session != w.p.s {
		go s.Close()
		return
	}
	w.mu.Lock()
	i, ok := w.idx[s.id]
	w.mu.Unlock()
	if !ok {
		// left over from an earlier case on this pair (data in flight after its reader had closed)
		atomic.AddInt32(&w.ghosts, 1)
		go s.Close()
		return
	}
	srvRole := 1
	if w.c.Streams[i].WServer {
		srvRole = 0
	}
	e := w.ends[i][srvRole]
	e.mu.Lock()
	if e.stream != nil {
		// a second stream object for the same id: data arrived after the first one was closed. By design it surfaces again
		// (open finding D16 is about that); an application that does not expect it closes it.
		e.ghost = true
		e.mu.Unlock()
		atomic.AddInt32(&w.ghosts, 1)
		go s.Close()
		return
	}
	e.stream = s
	e.mu.Unlock()
	if srvRole == 1 && w.c.Streams[i].Reader == "cb" {
		if err := s.SetCallbacks(&rsCB{w: w, e: e, sp: &w.c.Streams[i]}); err != nil {
			w.fail("SetCallbacks: %v", err)
		}
	}
	close(e.surfaced)
}

func (w *rsWorld) fail(format string, a ...interface{}) {
	w.viol.CompareAndSwap(nil, fmt.Sprintf(format, a...))
}

type rsCB struct {
	w      *rsWorld
	e      *rsEnd
	sp     *rsStream
	noMore bool
}

func (a *rsCB) OnData(reader BufferReader) {
	e := a.e
	if atomic.AddInt32(&e.inCB, 1) > 1 {
		e.overlap = true
	}
	defer atomic.AddInt32(&e.inCB, -1)
	e.mu.Lock()
	p := a.sp.CB[e.onData%len(a.sp.CB)]
	e.onData++
	already := e.closed
	e.mu.Unlock()
	n := reader.Len()
	if p.Take > 0 && p.Take < n {
		n = p.Take
	}
	waits := false
	if p.More > 0 && !a.noMore {
		// a message spanning several flushes: wait inside OnData for bytes the writer is still going to flush
		total := 0
		for _, c := range a.sp.Chunks {
			total += c
		}
		e.mu.Lock()
		more := total - len(e.read) - reader.Len()
		e.mu.Unlock()
		if more > p.More {
			more = p.More
		}
		if more > 0 {
			n = reader.Len() + more
			waits = true
			atomic.AddInt32(&a.w.waited, 1)
		}
	}
	if n > 0 {
		if waits {
			e.stream.SetReadDeadline(time.Now().Add(rsStall))
		}
		b, err := reader.ReadBytes(n)
		if err != nil && waits {
			if isTimeout(err) {
				a.w.fail("OnData waited %v inside ReadBytes(%d) for bytes the writer flushed (Len()=%d): %v", rsStall, n, reader.Len(), err)
			}
			a.noMore = true // the rest never came (a close ended the wait); nothing was consumed
		} else if err != nil {
			a.w.fail("OnData: ReadBytes(%d) with Len()=%d failed: %v", n, reader.Len(), err)
		} else {
			e.mu.Lock()
			e.read = append(e.read, b...)
			e.mu.Unlock()
		}
		reader.ReleasePreviousRead()
	}
	if p.Close && !already {
		e.mu.Lock()
		e.closed = true
		st := e.stream
		e.mu.Unlock()
		err := st.Close()
		e.mu.Lock()
		e.closeRet = append(e.closeRet, fmt.Sprint(err))
		e.mu.Unlock()
	}
}
func (a *rsCB) OnLocalClose()  { a.e.mu.Lock(); a.e.onLocal++; a.e.mu.Unlock() }
func (a *rsCB) OnRemoteClose() { a.e.mu.Lock(); a.e.onRemote++; a.e.mu.Unlock() }

var rsPairs = map[string]*pairT{}

func rsGetPair(cfg pairCfg, r *runCtx) *pairT {
	k := cfg.key()
	if p := rsPairs[k]; p != nil {
		if p.settle(2*time.Second, r) {
			return p
		}
		r.Count("dirty_pair_rebuilt", 1)
		p.close()
		delete(rsPairs, k)
	}
	if len(rsPairs) > 4 {
		for kk, pp := range rsPairs {
			pp.close()
			delete(rsPairs, kk)
		}
	}
	conf := cfg.config()
	sconf := *conf
	sconf.listenCallback = rsListen{}
	client, server, cerr, serr := newPairFromConfigs(conf, &sconf)
	if cerr != nil || serr != nil {
		harnessFail("cannot establish session pair: client %v server %v", cerr, serr)
	}
	p := &pairT{cfg: cfg, c: client, s: server}
	for _, l := range client.bufferManager.lists {
		p.caps = append(p.caps, *l.capPerBuffer)
	}
	rsPairs[k] = p
	return p
}

func genRsCfg(t *rapid.T) pairCfg {
	// (1 MiB is the smallest memory the configuration check accepts; scarcity comes from Keep, see rsCase)
	return rapid.SampledFrom([]pairCfg{
		{MemFd: true, BufCap: 1 << 20, QueueCap: 64, Sizes: []c03Pair{{64, 30}, {1024, 70}}},
		{MemFd: true, BufCap: 1 << 20, QueueCap: 16, Sizes: []c03Pair{{256, 100}}},
		{MemFd: false, BufCap: 1 << 20, QueueCap: 1024, Sizes: []c03Pair{{64, 10}, {4096, 90}}},
		{MemFd: true, BufCap: 1 << 20, QueueCap: 8192, Sizes: []c03Pair{{64, 1}, {256, 1}, {1024, 2}, {65536, 96}}},
	}).Draw(t, "cfg")
}

// genRsStream: focus selects what the property at hand needs most often
func genRsStream(t *rapid.T, focus string) rsStream {
	var s rsStream
	s.WServer = rapid.IntRange(0, 3).Draw(t, "wserver") == 0
	n := rapid.IntRange(1, 12).Draw(t, "nchunks")
	total := 0
	for i := 0; i < n; i++ {
		sz := rapid.SampledFrom([]int{1, 2, 7, 63, 64, 65, 200, 1000, 1024, 3000, 9000, 40000}).Draw(t, "chunk")
		s.Chunks = append(s.Chunks, sz)
		total += sz
		if rapid.IntRange(0, 3).Draw(t, "y") == 0 {
			s.Yield = append(s.Yield, i)
		}
	}
	readers := []string{"readall", "early", "cb"}
	switch focus {
	case "C20", "C09":
		readers = []string{"cb", "cb", "cb", "readall", "early"}
	case "C07":
		readers = []string{"readall", "readall", "cb", "early"}
	}
	s.Reader = rapid.SampledFrom(readers).Draw(t, "reader")
	s.WClose = rapid.SampledFrom([]string{"close", "close", "close2"}).Draw(t, "wclose")
	switch s.Reader {
	case "readall":
		s.ReadBuf = rapid.SampledFrom([]int{1, 16, 64, 1000, 70000}).Draw(t, "rbuf")
	case "early":
		s.EarlyAt = rapid.IntRange(0, total).Draw(t, "early_at")
		if rapid.Bool().Draw(t, "wwait") {
			s.WClose = "wait"
		}
	case "cb":
		np := rapid.IntRange(1, 4).Draw(t, "npol")
		closes := false
		for i := 0; i < np; i++ {
			p := cbPolicy{Take: rapid.SampledFrom([]int{0, 0, 1, 5, 64, 1000}).Draw(t, "take"),
				More: rapid.SampledFrom([]int{0, 0, 0, 1, 64, 5000}).Draw(t, "more")}
			if rapid.IntRange(0, 5).Draw(t, "cbclose") == 0 {
				p.Close = true
				closes = true
			}
			s.CB = append(s.CB, p)
		}
		if closes {
			// (the writer may only wait for the reader's close when the very first OnData closes: later policies need not be reached)
			if s.CB[0].Close && rapid.Bool().Draw(t, "wwait") {
				s.WClose = "wait"
			}
		} else {
			s.CBClose = rapid.SampledFrom([]string{"remote", "end"}).Draw(t, "cbcloser")
		}
	}
	return s
}

func genRsCase(focus string) func(t *rapid.T) rsCase {
	return func(t *rapid.T) rsCase {
		c := rsCase{Cfg: genRsCfg(t), Procs: rapid.SampledFrom([]int{1, 2, 4, 8}).Draw(t, "procs"),
			Keep: rapid.SampledFrom([]int{-1, -1, 0, 1, 2, 4, 16}).Draw(t, "keep")}
		n := rapid.IntRange(1, 6).Draw(t, "nstreams")
		if focus == "C07" {
			n = rapid.IntRange(2, 6).Draw(t, "nstreams7")
		}
		for i := 0; i < n; i++ {
			c.Streams = append(c.Streams, genRsStream(t, focus))
		}
		return c
	}
}

const rsStall = 40 * time.Second

// rsRun executes the case and returns the world (history). ok=false: the run did not complete (message in viol).
func rsRun(c rsCase, r *runCtx) (*rsWorld, bool) {
	old := runtime.GOMAXPROCS(c.Procs)
	defer runtime.GOMAXPROCS(old)
	p := rsGetPair(c.Cfg, r)
	w := &rsWorld{p: p, idx: map[uint32]int{}, c: &c}
	for range c.Streams {
		w.ends = append(w.ends, [2]*rsEnd{{surfaced: make(chan struct{})}, {surfaced: make(chan struct{})}})
	}
	rsCur.Store(w)
	defer rsCur.Store((*rsWorld)(nil))
	if c.Keep >= 0 {
		keep := make([]int, len(p.caps))
		for i := range keep {
			keep[i] = c.Keep
		}
		p.hogTo(keep)
	}
	// open every stream first so that the ids are known before anything can surface on the server
	cstreams := make([]*Stream, len(c.Streams))
	for i, sp := range c.Streams {
		st, err := p.c.OpenStream()
		if err != nil {
			harnessFail("OpenStream: %v", err)
		}
		cstreams[i] = st
		crole := 0
		if sp.WServer {
			crole = 1
		}
		e := w.ends[i][crole]
		e.stream = st
		close(e.surfaced)
		w.mu.Lock()
		w.idx[st.id] = i
		w.mu.Unlock()
		if crole == 1 && sp.Reader == "cb" {
			if err := st.SetCallbacks(&rsCB{w: w, e: e, sp: &c.Streams[i]}); err != nil {
				harnessFail("SetCallbacks: %v", err)
			}
		}
	}
	var wg sync.WaitGroup
	spawn := func(f func()) {
		wg.Add(1)
		go func() {
			defer wg.Done()
			defer func() {
				if x := recover(); x != nil {
					w.fail("panic on an application goroutine: %v", x)
				}
			}()
			f()
		}()
	}
	doClose := func(e *rsEnd) {
		e.mu.Lock()
		e.closed = true
		st := e.stream
		e.mu.Unlock()
		err := st.Close()
		e.mu.Lock()
		e.closeRet = append(e.closeRet, fmt.Sprint(err))
		e.mu.Unlock()
	}
	afterClose := func(e *rsEnd) {
		// after a local Close that has returned, every later operation fails
		st := e.stream
		st.BufferWriter().WriteByte(1)
		e.postFlush = fmt.Sprint(st.Flush(false))
		var b [1]byte
		st.SetReadDeadline(time.Now().Add(time.Second))
		_, err := st.Read(b[:])
		e.postRead = fmt.Sprint(err)
	}
	for i := range c.Streams {
		i := i
		sp := c.Streams[i]
		key := uint32(100 + i)
		we, re := w.ends[i][0], w.ends[i][1]
		opener := sp.WServer
		// ---- writer ----
		spawn(func() {
			select {
			case <-we.surfaced:
			case <-time.After(rsStall):
				w.fail("stream %d: the server never saw the stream although the client flushed its opening byte", i)
				return
			}
			st := we.stream
			if opener {
				// server writer: consume the opening byte
				b, err := st.BufferReader().ReadBytes(1)
				if err != nil || b[0] != 0x77 {
					w.fail("stream %d: opening byte: %v %v", i, b, err)
					return
				}
				st.BufferReader().ReleasePreviousRead()
			}
			yi := 0
			for k, n := range sp.Chunks {
				if yi < len(sp.Yield) && sp.Yield[yi] == k {
					yi++
					runtime.Gosched()
				}
				we.mu.Lock()
				off := len(we.flushed)
				we.mu.Unlock()
				data := keyedBytes(key, off, n)
				if _, err := st.BufferWriter().WriteBytes(data); err != nil {
					we.mu.Lock()
					we.flushErr = "WriteBytes: " + err.Error()
					we.mu.Unlock()
					break
				}
				if err := st.Flush(false); err != nil {
					we.mu.Lock()
					we.flushErr = err.Error()
					we.mu.Unlock()
					break
				}
				we.mu.Lock()
				we.flushed = append(we.flushed, data...)
				we.mu.Unlock()
			}
			switch sp.WClose {
			case "close":
				doClose(we)
			case "close2":
				doClose(we)
				doClose(we)
			case "wait":
				// the reader closes: this end must see the end of the stream
				st.SetReadDeadline(time.Now().Add(rsStall))
				var b [8]byte
				for {
					_, err := st.Read(b[:])
					if err != nil {
						we.mu.Lock()
						we.readErr = err.Error()
						we.mu.Unlock()
						break
					}
				}
				doClose(we)
			}
			afterClose(we)
		})
		// ---- reader ----
		spawn(func() {
			if opener {
				// client reader: make the stream known to the server
				cst := cstreams[i]
				cst.BufferWriter().WriteByte(0x77)
				if err := cst.Flush(false); err != nil {
					w.fail("stream %d: flush of the opening byte failed: %v", i, err)
					return
				}
			}
			select {
			case <-re.surfaced:
			case <-time.After(rsStall):
				// (the writer reports it)
				return
			}
			st := re.stream
			switch sp.Reader {
			case "readall":
				buf := make([]byte, sp.ReadBuf)
				st.SetReadDeadline(time.Now().Add(rsStall))
				for {
					n, err := st.Read(buf)
					re.mu.Lock()
					re.read = append(re.read, buf[:n]...)
					re.mu.Unlock()
					if err != nil {
						re.mu.Lock()
						re.readErr = err.Error()
						re.mu.Unlock()
						break
					}
					if n == 0 {
						w.fail("stream %d: Read returned (0, nil)", i)
						return
					}
				}
				doClose(re)
				afterClose(re)
			case "early":
				left := sp.EarlyAt
				st.SetReadDeadline(time.Now().Add(rsStall))
				for left > 0 {
					n := left
					if n > 4096 {
						n = 4096
					}
					b, err := st.BufferReader().ReadBytes(n)
					if err != nil {
						re.mu.Lock()
						re.readErr = err.Error()
						re.mu.Unlock()
						break
					}
					re.mu.Lock()
					re.read = append(re.read, b...)
					re.mu.Unlock()
					st.BufferReader().ReleasePreviousRead()
					left -= n
				}
				doClose(re)
				afterClose(re)
			case "cb":
				if sp.CBClose == "remote" {
					ok := waitUntil(rsStall, func() bool {
						re.mu.Lock()
						defer re.mu.Unlock()
						return re.onRemote > 0
					})
					if ok {
						doClose(re)
					}
				}
			}
		})
	}
	done := make(chan struct{})
	go func() { wg.Wait(); close(done) }()
	select {
	case <-done:
	case <-time.After(rsStall + 20*time.Second):
		w.fail("the scenario did not finish within %v: some call never returned", rsStall+20*time.Second)
		w.hung = true
		p.unhog()
		dropRsPair(p)
		return w, false
	}
	return w, w.viol.Load() == nil
}

func dropRsPair(p *pairT) {
	p.close()
	delete(rsPairs, p.cfg.key())
}

// rsFinish closes what the scenario left open (callback ends that never close on their own) and waits for quiescence.
func rsFinish(w *rsWorld, r *runCtx) (quiet bool) {
	for i := range w.ends {
		for e := 0; e < 2; e++ {
			eh := w.ends[i][e]
			eh.mu.Lock()
			st, closed := eh.stream, eh.closed
			eh.mu.Unlock()
			if st != nil && !closed {
				eh.mu.Lock()
				eh.closed = true
				eh.mu.Unlock()
				// a callback end whose policy never closed: wait for the data to be offered before closing for good
				if e == 1 && w.c.Streams[i].Reader == "cb" {
					we := w.ends[i][0]
					waitUntil(10*time.Second, func() bool {
						eh.mu.Lock()
						defer eh.mu.Unlock()
						we.mu.Lock()
						defer we.mu.Unlock()
						return len(eh.read) >= len(we.flushed) && eh.onRemote > 0
					})
				}
				err := st.Close()
				eh.mu.Lock()
				eh.closeRet = append(eh.closeRet, fmt.Sprint(err))
				eh.mu.Unlock()
			}
		}
	}
	w.p.unhog()
	return w.p.settle(10*time.Second, r)
}

func rsSnapshot(e *rsEnd) rsEnd {
	e.mu.Lock()
	defer e.mu.Unlock()
	return rsEnd{stream: e.stream, flushed: e.flushed, flushErr: e.flushErr, read: e.read, readErr: e.readErr, closeRet: e.closeRet,
		closed: e.closed, onData: e.onData, onLocal: e.onLocal, onRemote: e.onRemote, overlap: e.overlap, postFlush: e.postFlush,
		postRead: e.postRead, ghost: e.ghost}
}

func prefixDiff(a, b []byte) int {
	n := len(a)
	if len(b) < n {
		n = len(b)
	}
	for i := 0; i < n; i++ {
		if a[i] != b[i] {
			return i
		}
	}
	return -1
}

// rsJudge applies the oracles of the given property to a finished run.
func rsJudge(prop string, c rsCase, w *rsWorld, completed bool, r *runCtx) {
	if w.hung {
		// a call that never returns is what C10 (the peer observes the end of the stream) and C20 (every byte is offered without
		// further traffic) promise not to happen; C07 and C09 say nothing about it (that is C11's business): no verdict from them
		if prop == "C10" || prop == "C20" {
			r.Violf("%s", w.viol.Load().(string))
		} else {
			r.Label("did-not-finish")
		}
		return
	}
	if v := w.viol.Load(); v != nil {
		r.Violf("%s", v.(string))
		return
	}
	quiet := rsFinish(w, r)
	if v := w.viol.Load(); v != nil {
		r.Violf("%s", v.(string))
		return
	}
	fb := w.p.c.stats.fallbackWriteCount + w.p.s.stats.fallbackWriteCount
	_ = fb
	for i, sp := range c.Streams {
		we, re := rsSnapshot(w.ends[i][0]), rsSnapshot(w.ends[i][1])
		desc := fmt.Sprintf("stream %d (%s)", i, rsDescribe(sp))
		// ---- what arrived is what was sent, for this stream only, in order (C07 / C20) ----
		if d := prefixDiff(re.read, we.flushed); d >= 0 || len(re.read) > len(we.flushed) {
			if prop == "C07" || prop == "C20" {
				r.Violf("%s: the reader obtained %d bytes which are not a prefix of the %d bytes flushed (first difference at %d)", desc, len(re.read), len(we.flushed), d)
				return
			}
		}
		writerClosedFirst := sp.WClose != "wait"
		complete := writerClosedFirst && we.flushErr == "" && (sp.Reader == "readall" || (sp.Reader == "cb" && sp.CBClose != "" ))
		if complete && len(re.read) != len(we.flushed) {
			if (prop == "C07" && sp.Reader == "readall") || (prop == "C20" && sp.Reader == "cb") {
				r.Violf("%s: the writer flushed %d bytes and then closed, the reader obtained %d before the end of the stream (%s)", desc, len(we.flushed), len(re.read), re.readErr)
				return
			}
		}
		if prop == "C20" && sp.Reader == "cb" && re.overlap {
			r.Violf("%s: OnData ran concurrently with itself", desc)
			return
		}
		if prop != "C10" {
			continue
		}
		// ---- C10 ----
		if sp.Reader == "readall" && re.readErr != ErrEndOfStream.Error() && writerClosedFirst {
			r.Violf("%s: the reader's Read ended with %q, not with end-of-stream, although the writer closed", desc, re.readErr)
			return
		}
		if sp.WClose == "wait" && we.readErr != ErrEndOfStream.Error() && !we.ghost && !re.ghost {
			r.Violf("%s: the reader closed, but the writer's Read ended with %q instead of end-of-stream", desc, we.readErr)
			return
		}
		for e, eh := range []rsEnd{we, re} {
			for k, ret := range eh.closeRet {
				if ret != "<nil>" {
					r.Violf("%s end %d: Close call #%d returned %s", desc, e, k, ret)
					return
				}
			}
			if eh.postFlush == "<nil>" {
				r.Violf("%s end %d: Flush after the local Close succeeded", desc, e)
				return
			}
			if eh.postRead == "<nil>" || eh.postRead == ErrTimeout.Error() {
				r.Violf("%s end %d: Read after the local Close returned %s", desc, e, eh.postRead)
				return
			}
			if eh.stream != nil && eh.closed && eh.stream.getStreamState() != uint32(streamClosed) {
				r.Violf("%s end %d: Close returned, nothing is in flight, but the stream state is %d", desc, e, eh.stream.getStreamState())
				return
			}
		}
		if sp.Reader == "cb" {
			if re.onLocal+re.onRemote == 0 {
				// the close callback is the last thing a closing goroutine does (after the stream left the table): give it time
				waitUntil(10*time.Second, func() bool {
					x := rsSnapshot(w.ends[i][1])
					return x.onLocal+x.onRemote > 0
				})
				re = rsSnapshot(w.ends[i][1])
			}
			if re.onLocal+re.onRemote != 1 {
				r.Violf("%s: the callback end was closed (and saw the peer's close or closed first): OnLocalClose fired %d times, OnRemoteClose %d times", desc, re.onLocal, re.onRemote)
				return
			}
		}
	}
	if !quiet {
		dirt := w.p.dirt()
		r.Label("not-quiet-afterwards:" + dirt)
		if prop == "C09" && !w.p.allFree() {
			var caps []uint32
			for _, l := range w.p.c.bufferManager.lists {
				caps = append(caps, *l.cap)
			}
			r.Violf("every stream is closed on both ends and nothing is in flight, but the free slots per size class are %v, the capacities %v (more free than capacity = a buffer was recycled twice, fewer = a buffer was never given back)",
				w.p.freeCounts(), caps)
		}
		if prop == "C10" && (w.p.c.GetActiveStreamCount() != 0 || w.p.s.GetActiveStreamCount() != 0) {
			r.Violf("every stream was closed on both ends and nothing is in flight, but the sessions still count active streams (client %d, server %d; %s)",
				w.p.c.GetActiveStreamCount(), w.p.s.GetActiveStreamCount(), dirt)
		}
		if os.Getenv("VERIF_RS_DEBUG") != "" {
			fmt.Fprintf(os.Stderr, "RSDEBUG not quiet: %s free=%v hog=%d case=%+v\n", dirt, w.p.freeCounts(), len(w.p.hog), c)
		}
		dropRsPair(w.p)
		return
	}
	if atomic.LoadInt32(&w.ghosts) > 0 {
		r.Label("ghost-stream")
	}
	if atomic.LoadInt32(&w.waited) > 0 {
		r.Label("ondata-waited-for-more-bytes")
	}
}

func rsDescribe(sp rsStream) string {
	w := "client"
	if sp.WServer {
		w = "server"
	}
	return fmt.Sprintf("writer=%s %d chunks then %s, reader=%s%s", w, len(sp.Chunks), sp.WClose, sp.Reader, sp.CBClose)
}

func rsLabels(c rsCase, w *rsWorld, r *runCtx) {
	cb, early, wsrv, big := false, false, false, false
	for _, sp := range c.Streams {
		cb = cb || sp.Reader == "cb"
		early = early || sp.Reader == "early"
		wsrv = wsrv || sp.WServer
		for _, n := range sp.Chunks {
			big = big || n >= 9000
		}
	}
	r.Label(fmt.Sprintf("streams=%d", len(c.Streams)))
	r.Label(fmt.Sprintf("procs=%d", c.Procs))
	if cb {
		r.Label("callback-reader")
	}
	if early {
		r.Label("early-close")
	}
	if wsrv {
		r.Label("server-writes")
	}
	if big {
		r.Label("big-chunk")
	}
}

func rsCheck(t *testing.T, prop, name, rule string, nontrivial func(c rsCase) bool) {
	runCheck(t, checkDef[rsCase]{
		name: name, replayTries: 5,
		rule: rule,
		assumptions: []string{
			"free-running part: the schedule is the Go runtime's (GOMAXPROCS and the number of concurrent streams are generated); only schedule-independent facts are judged",
			"no program closes a session or closes a stream under its own blocked reader (C14 / known finding D20)",
		},
		gen: genRsCase(prop),
		run: func(c rsCase, r *runCtx) {
			before := w0fallback()
			// a replay runs the case repeatedly in one process: what these cases are after depends on the runtime's schedule
			n := 1
			if vReplay != "" {
				n = 100
			}
			for k := 0; k < n && !r.Failed(); k++ {
				w, ok := rsRun(c, r)
				if k == 0 {
					rsLabels(c, w, r)
				}
				rsJudge(prop, c, w, ok, r)
			}
			if w0fallback() > before {
				r.Label("socket-fallback-used")
			}
			if nontrivial(c) && !r.Failed() {
				r.NonTrivial()
			}
		}})
}

var rsFallbackProbe func() uint64

func w0fallback() uint64 {
	var n uint64
	for _, p := range rsPairs {
		n += atomic.LoadUint64(&p.c.stats.fallbackWriteCount) + atomic.LoadUint64(&p.s.stats.fallbackWriteCount)
	}
	return n
}

func TestVerifC07Real(t *testing.T) {
	rsCheck(t, "C07", "TestVerifC07Real",
		"at least two streams carry data at the same time over one session",
		func(c rsCase) bool { return len(c.Streams) >= 2 })
}

func TestVerifC09Real(t *testing.T) {
	rsCheck(t, "C09", "TestVerifC09Real",
		"concurrent streams of which at least one is closed early or from inside a callback, i.e. with data or a flush possibly still on its way",
		func(c rsCase) bool {
			for _, sp := range c.Streams {
				if sp.Reader == "early" {
					return true
				}
				for _, p := range sp.CB {
					if p.Close {
						return true
					}
				}
			}
			return false
		})
}

func TestVerifC10Real(t *testing.T) {
	rsCheck(t, "C10", "TestVerifC10Real",
		"a stream is closed while the other end is still writing, reading or inside a callback (early close, close inside OnData, or a repeated Close)",
		func(c rsCase) bool {
			for _, sp := range c.Streams {
				if sp.Reader == "early" || sp.WClose == "close2" {
					return true
				}
				for _, p := range sp.CB {
					if p.Close {
						return true
					}
				}
			}
			return false
		})
}

func TestVerifC20Real(t *testing.T) {
	rsCheck(t, "C20", "TestVerifC20Real",
		"a callback-mode reader is offered at least two flushes",
		func(c rsCase) bool {
			for _, sp := range c.Streams {
				if sp.Reader == "cb" && len(sp.Chunks) >= 2 {
					return true
				}
			}
			return false
		})
}
