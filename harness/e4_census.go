//go:build verif

package shmipc

// Engine E4 helpers: census of what a session leaves behind (descriptors, mappings, /dev/shm files, goroutines).

import (
	"fmt"
	"os"
	"runtime"
	"sort"
	"strings"
	"time"
)

type censusT struct {
	Sockets  int      // open socket descriptors
	ShmFds   []string // descriptors onto shared memory objects created by this process' checks (memfd or /dev/shm files)
	Maps     []string // mappings of such objects
	ShmFiles []string // files in /dev/shm created by this process' checks
	TotalFds int
}

func censusPrefix() string { return fmt.Sprintf("vrf%d_%d_", vPid, vShard) }

func takeCensus() censusT {
	var c censusT
	pre := censusPrefix()
	ents, _ := os.ReadDir("/proc/self/fd")
	for _, e := range ents {
		tgt, err := os.Readlink("/proc/self/fd/" + e.Name())
		if err != nil {
			continue
		}
		c.TotalFds++
		if strings.HasPrefix(tgt, "socket:") {
			c.Sockets++
		}
		if strings.Contains(tgt, pre) {
			c.ShmFds = append(c.ShmFds, tgt)
		}
	}
	if b, err := os.ReadFile("/proc/self/maps"); err == nil {
		for _, ln := range strings.Split(string(b), "\n") {
			if strings.Contains(ln, pre) {
				f := strings.Fields(ln)
				c.Maps = append(c.Maps, f[len(f)-1])
			}
		}
	}
	if ents, err := os.ReadDir("/dev/shm"); err == nil {
		for _, e := range ents {
			if strings.HasPrefix(e.Name(), pre) {
				c.ShmFiles = append(c.ShmFiles, e.Name())
			}
		}
	}
	sort.Strings(c.ShmFds)
	sort.Strings(c.Maps)
	sort.Strings(c.ShmFiles)
	return c
}

func (c censusT) diff(base censusT) string {
	var d []string
	if c.Sockets > base.Sockets {
		d = append(d, fmt.Sprintf("socket descriptors %d (baseline %d)", c.Sockets, base.Sockets))
	}
	if x := extra(c.ShmFds, base.ShmFds); len(x) > 0 {
		d = append(d, fmt.Sprintf("descriptors onto shared memory still open: %v", x))
	}
	if x := extra(c.Maps, base.Maps); len(x) > 0 {
		d = append(d, fmt.Sprintf("mappings still present: %v", x))
	}
	if x := extra(c.ShmFiles, base.ShmFiles); len(x) > 0 {
		d = append(d, fmt.Sprintf("files left in /dev/shm: %v", x))
	}
	return strings.Join(d, "; ")
}

func extra(now, base []string) []string {
	cnt := map[string]int{}
	for _, b := range base {
		cnt[b]++
	}
	var out []string
	for _, n := range now {
		if cnt[n] > 0 {
			cnt[n]--
		} else {
			out = append(out, n)
		}
	}
	return out
}

// settleCensus waits (GC for finalisers of dropped os.Files, dispatcher kept awake) until the census equals the baseline.
func settleCensus(base censusT, d time.Duration) (censusT, string) {
	deadline := time.Now().Add(d)
	var c censusT
	var df string
	for {
		runtime.GC()
		pokeDispatcher()
		time.Sleep(2 * time.Millisecond)
		runtime.GC()
		c = takeCensus()
		df = c.diff(base)
		if df == "" || time.Now().After(deadline) {
			return c, df
		}
		time.Sleep(10 * time.Millisecond)
	}
}

// censusWarmup creates everything that is created lazily once per process (dispatcher epoll fd, spare pair, pools).
func censusWarmup() {
	pokeDispatcher()
	p := newPair(defaultPairCfg)
	p.close()
	waitPoked(3*time.Second, func() bool { return p.c.queueManager == nil && p.s.queueManager == nil })
	runtime.GC()
	time.Sleep(5 * time.Millisecond)
}

// stableCensus takes the baseline once leftovers of earlier cases (sockets closed by lambdas or finalisers) are gone:
// two consecutive identical censuses after GC.
func stableCensus() censusT {
	prev := takeCensus()
	for i := 0; i < 40; i++ {
		runtime.GC()
		pokeDispatcher()
		time.Sleep(3 * time.Millisecond)
		c := takeCensus()
		if c.TotalFds == prev.TotalFds && c.diff(prev) == "" && prev.diff(c) == "" {
			return c
		}
		prev = c
	}
	return prev
}
