//go:build verif

package shmipc

// C03 - both processes derive the same memory layout from any configuration (engine E5, DESIGN.md 5/C03).

import (
	"fmt"
	"os"
	"sort"
	"testing"
	"unsafe"

	syscall "golang.org/x/sys/unix"
	"pgregory.net/rapid"
)

type c03Pair struct {
	Size    uint32 `json:"size"`
	Percent uint32 `json:"pct"`
}

type c03Case struct {
	Pairs    []c03Pair `json:"pairs"`
	Mem      int       `json:"mem"`
	Offset   uint32    `json:"offset"`
	QueueCap uint32    `json:"queue_cap"`
	Backend  int       `json:"backend"` // 0 byte slice, 1 /dev/shm file, 2 memfd
	Junk     byte      `json:"junk"`    // byte-slice backend: memory pre-filled with this value outside the flag bytes
}

func c03GenPairs(t *rapid.T, mem int, viaVerify bool) []c03Pair {
	n := rapid.SampledFrom([]int{1, 2, 2, 3, 3, 3, 4, 5, 6}).Draw(t, "npairs")
	pairs := make([]c03Pair, n)
	mode := rapid.IntRange(0, 5).Draw(t, "pctmode")
	left := 100
	for i := range pairs {
		switch {
		case mode <= 2 || viaVerify: // sums to exactly 100
			if i == n-1 {
				pairs[i].Percent = uint32(left)
			} else {
				p := rapid.IntRange(0, left-(n-1-i)).Draw(t, "pct")
				if p == 0 && rapid.IntRange(0, 3).Draw(t, "nz") != 0 && left > n {
					p = 1
				}
				pairs[i].Percent = uint32(p)
				left -= p
			}
		case mode == 3: // any, may exceed 100
			pairs[i].Percent = uint32(rapid.IntRange(0, 100).Draw(t, "pct"))
		default: // sum below 100
			p := rapid.IntRange(0, left/2).Draw(t, "pct")
			pairs[i].Percent = uint32(p)
			left -= p
		}
		if pairs[i].Percent == 0 && !(mode <= 2 || viaVerify) && rapid.IntRange(0, 3).Draw(t, "nz") != 0 {
			pairs[i].Percent = 1
		}
		// the room this class gets; sizes are drawn around the boundaries that room imposes
		share := uint64(mem) * uint64(pairs[i].Percent) / 100
		if share < 64 {
			share = 64
		}
		if share > uint64(mem) {
			share = uint64(mem)
		}
		s := rapid.OneOf(
			rapid.SampledFrom([]uint32{1, 2, 3, 4, 8, 19, 20, 21, 63, 64, 65, 255, 256, 1024, 4096, 8172, 65536}),
			rapid.Uint32Range(1, 512),
			rapid.Uint32Range(1, uint32(share)),
			rapid.Uint32Range(1, uint32(share/4+1)),
			rapid.SampledFrom([]uint32{uint32(share), uint32(share) - 20, uint32(share) - 21, uint32(share) - 19, uint32(share/2) - 20, uint32(share/2) - 21, uint32(share / 3), uint32(mem), uint32(mem / 2)}),
		).Draw(t, "size")
		if s == 0 || s > uint32(mem) {
			s = uint32(mem)
		}
		pairs[i].Size = s
	}
	if rapid.IntRange(0, 5).Draw(t, "dup") == 0 && n >= 2 {
		pairs[n-1].Size = pairs[0].Size
	}
	return pairs
}

func c03GenSlice(t *rapid.T) c03Case {
	mem := rapid.OneOf(
		rapid.IntRange(64, 4096),
		rapid.IntRange(256, 4096),
		rapid.IntRange(4096, 65536),
		rapid.IntRange(4096, 65536),
		rapid.IntRange(4096, 65536),
		rapid.IntRange(65536, 1<<20),
		rapid.SampledFrom([]int{1 << 20, 1<<20 + 1, 1 << 19, 4 << 20}),
	).Draw(t, "mem")
	c := c03Case{Mem: mem}
	if rapid.IntRange(0, 2).Draw(t, "offmode") == 0 {
		c.Offset = uint32(rapid.IntRange(1, mem/4).Draw(t, "offset")) &^ 3
	}
	c.Pairs = c03GenPairs(t, mem-int(c.Offset), false)
	c.QueueCap = rapid.OneOf(rapid.Uint32Range(0, 9), rapid.SampledFrom([]uint32{16, 255, 256, 8192, 65536})).Draw(t, "qcap")
	c.Junk = rapid.SampledFrom([]byte{0, 0, 0xff, 0x02, 0xa5}).Draw(t, "junk")
	return c
}

func c03GenReal(t *rapid.T) c03Case {
	mem := rapid.SampledFrom([]int{1 << 20, 1<<20 + 4096, 2 << 20, 1<<20 + 1}).Draw(t, "mem")
	c := c03Case{Mem: mem, Backend: rapid.IntRange(1, 2).Draw(t, "backend")}
	c.Pairs = c03GenPairs(t, mem, true)
	c.QueueCap = rapid.OneOf(rapid.Uint32Range(0, 9), rapid.SampledFrom([]uint32{16, 255, 256, 8192})).Draw(t, "qcap")
	return c
}

func (c c03Case) pairs() []*SizePercentPair {
	ps := make([]*SizePercentPair, len(c.Pairs))
	for i, p := range c.Pairs {
		ps[i] = &SizePercentPair{Size: p.Size, Percent: p.Percent}
	}
	return ps
}

type c03ListView struct {
	cap, capPer, regionOff, head, tail uint32
	size                               int32
	listOff                            uint32
}

func c03View(l *bufferList) c03ListView {
	return c03ListView{cap: *l.cap, capPer: *l.capPerBuffer, regionOff: l.bufferRegionOffsetInShm, head: *l.head, tail: *l.tail,
		size: *l.size, listOff: l.offsetInShm}
}

// walkFreeChain walks a free list from head; returns the number of distinct slots visited and an error text ("" = well formed:
// every step on the slot grid inside the region, no slot twice, last slot == tail and carries no next flag).
func walkFreeChain(l *bufferList) (int, string) {
	stride := *l.capPerBuffer + bufferHeaderSize
	nslots := uint32(len(l.bufferRegion)) / stride
	seen := make([]bool, nslots)
	n := 0
	off := *l.head
	for {
		if off%stride != 0 || uint64(off)+uint64(stride) > uint64(len(l.bufferRegion)) {
			return n, fmt.Sprintf("chain leaves the slot grid at region offset %d (stride %d, region %d)", off, stride, len(l.bufferRegion))
		}
		if seen[off/stride] {
			return n, fmt.Sprintf("chain revisits slot at region offset %d", off)
		}
		seen[off/stride] = true
		n++
		bh := bufferHeader(l.bufferRegion[off : off+bufferHeaderSize])
		if !bh.hasNext() {
			if off != *l.tail {
				return n, fmt.Sprintf("chain ends at %d but tail is %d", off, *l.tail)
			}
			return n, ""
		}
		off = bh.nextBufferOffset()
	}
}

// c03CheckManagers is the core oracle: creator view vs. independently mapped peer view of the same memory.
func c03CheckManagers(c c03Case, r *runCtx, cbm, pbm *bufferManager, memLen int, sortedSizes []uint32) {
	if len(cbm.lists) != len(c.Pairs) {
		r.Violf("creator built %d lists for %d pairs", len(cbm.lists), len(c.Pairs))
		return
	}
	if len(pbm.lists) != len(cbm.lists) {
		r.Violf("peer reconstructs %d lists, creator has %d", len(pbm.lists), len(cbm.lists))
		return
	}
	type region struct{ lo, hi uint64 }
	var regions []region
	dupSizes := false
	for i, l := range cbm.lists {
		cv, pv := c03View(l), c03View(pbm.lists[i])
		if cv != pv {
			r.Violf("list %d: creator view %+v != peer view %+v", i, cv, pv)
			return
		}
		if cv.capPer != sortedSizes[i] {
			r.Violf("list %d has slice capacity %d, configuration (sorted) says %d", i, cv.capPer, sortedSizes[i])
			return
		}
		if i > 0 && sortedSizes[i] == sortedSizes[i-1] {
			dupSizes = true
		}
		if cv.cap == 0 {
			r.Violf("list %d created with zero slots", i)
			return
		}
		stride := uint64(cv.capPer) + bufferHeaderSize
		if cv.regionOff != cv.listOff+bufferListHeaderSize {
			r.Violf("list %d: region offset %d is not behind its %d-byte header at %d", i, cv.regionOff, bufferListHeaderSize, cv.listOff)
			return
		}
		lo, hi := uint64(cv.regionOff), uint64(cv.regionOff)+uint64(cv.cap)*stride
		if hi > uint64(memLen) || uint64(cv.listOff) < uint64(c.Offset)+bufferManagerHeaderSize {
			r.Violf("list %d: region [%d,%d) (header at %d) not inside the mapping of %d bytes behind the manager header", i, lo, hi, cv.listOff, memLen)
			return
		}
		if uint64(len(l.bufferRegion)) != hi-lo || uint64(len(pbm.lists[i].bufferRegion)) != hi-lo {
			r.Violf("list %d: region slice lengths %d/%d, expected %d", i, len(l.bufferRegion), len(pbm.lists[i].bufferRegion), hi-lo)
			return
		}
		for _, o := range regions {
			if uint64(cv.listOff) < o.hi && o.lo < hi {
				r.Violf("list %d [%d,%d) overlaps an earlier list [%d,%d)", i, cv.listOff, hi, o.lo, o.hi)
				return
			}
		}
		regions = append(regions, region{uint64(cv.listOff), hi})
		if cv.size != int32(cv.cap) {
			r.Violf("list %d: fresh list has size %d, cap %d", i, cv.size, cv.cap)
			return
		}
		for v, lst := range []*bufferList{l, pbm.lists[i]} {
			seen, msg := walkFreeChain(lst)
			if msg != "" {
				r.Violf("list %d view %d: %s", i, v, msg)
				return
			}
			if seen != int(cv.cap) {
				r.Violf("list %d view %d: free chain has %d slots, cap %d", i, v, seen, cv.cap)
				return
			}
		}
		// every slot header advertises the class capacity
		for k := uint32(0); k < cv.cap && k < 4096; k++ {
			so := uint64(k) * stride
			if got := *(*uint32)(unsafe.Pointer(&l.bufferRegion[so])); got != cv.capPer {
				r.Violf("list %d slot %d: header cap %d != %d", i, k, got, cv.capPer)
				return
			}
		}
		if cv.cap == 1 {
			r.Label("one-slot-class")
		}
	}
	used := *(*uint32)(unsafe.Pointer(&cbm.mem[c.Offset+bmCapOffset]))
	last := regions[len(regions)-1]
	if uint64(used)+bufferManagerHeaderSize != last.hi {
		r.Violf("used-length header %d (+%d) != end of last region %d", used, bufferManagerHeaderSize, last.hi)
		return
	}
	if cbm.minSliceSize != pbm.minSliceSize || cbm.maxSliceSize != pbm.maxSliceSize ||
		cbm.minSliceSize != sortedSizes[0] || cbm.maxSliceSize != sortedSizes[len(sortedSizes)-1] {
		r.Violf("min/max slice size differ: creator %d/%d peer %d/%d config %d/%d", cbm.minSliceSize, cbm.maxSliceSize,
			pbm.minSliceSize, pbm.maxSliceSize, sortedSizes[0], sortedSizes[len(sortedSizes)-1])
		return
	}
	// round trip: allocate through the creator, read and recycle through the peer view (and the other way round)
	for dir := 0; dir < 2; dir++ {
		a, b := cbm, pbm
		if dir == 1 {
			a, b = pbm, cbm
		}
		taken := map[uint32]bool{}
		for i, l := range a.lists {
			var got []*bufferSlice
			for k := 0; k < 40; k++ {
				s, err := l.pop()
				if err != nil {
					break
				}
				got = append(got, s)
				rel := uint64(s.offsetInShm) - uint64(l.bufferRegionOffsetInShm)
				stride := uint64(*l.capPerBuffer) + bufferHeaderSize
				if s.offsetInShm < l.bufferRegionOffsetInShm || rel%stride != 0 || rel/stride >= uint64(*l.cap) {
					r.Violf("dir %d list %d: allocated offset %d is not a slot boundary of region at %d (stride %d, %d slots)", dir, i, s.offsetInShm, l.bufferRegionOffsetInShm, stride, *l.cap)
					return
				}
				if taken[s.offsetInShm] {
					r.Violf("dir %d list %d: offset %d allocated twice", dir, i, s.offsetInShm)
					return
				}
				taken[s.offsetInShm] = true
				if s.cap != *l.capPerBuffer || len(s.data) != int(s.cap) {
					r.Violf("dir %d list %d: slice cap %d len(data) %d, class %d", dir, i, s.cap, len(s.data), *l.capPerBuffer)
					return
				}
				n := len(s.data)
				if n > 64 {
					n = 64
				}
				s.append(keyedBytes(s.offsetInShm, 0, n)...)
				s.update()
			}
			if len(got) > 0 {
				r.NonTrivial()
			}
			for _, s := range got {
				ps, err := b.readBufferSlice(s.offsetInShm)
				if err != nil {
					r.Violf("dir %d list %d: other view cannot read slice at %d: %v", dir, i, s.offsetInShm, err)
					return
				}
				n := len(s.data)
				if n > 64 {
					n = 64
				}
				if ps.cap != s.cap || ps.size() != n || string(ps.data[ps.readIndex:ps.writeIndex]) != string(keyedBytes(s.offsetInShm, 0, n)) {
					r.Violf("dir %d list %d: slice at %d read through the other view: cap %d size %d (want %d/%d) or content differs", dir, i, s.offsetInShm, ps.cap, ps.size(), s.cap, n)
					return
				}
				if dupSizes {
					b.lists[i].push(ps) // recycleBuffer picks the first class of that size; equal sizes are a documented foot-gun, not judged here
					putBackBufferSlice(ps)
				} else {
					b.recycleBuffer(ps)
				}
				putBackBufferSlice(s)
			}
			if *l.size != int32(*l.cap) {
				r.Violf("dir %d list %d: after recycling through the other view size %d != cap %d", dir, i, *l.size, *l.cap)
				return
			}
			if seen, msg := walkFreeChain(l); msg != "" || seen != int(*l.cap) {
				r.Violf("dir %d list %d: chain after cross-view recycle: %s (%d of %d slots)", dir, i, msg, seen, *l.cap)
				return
			}
		}
	}
	if dupSizes {
		r.Label("duplicate-sizes")
	}
}

func c03CheckQueues(r *runCtx, a, b *queueManager, qcap uint32) {
	if a.sendQueue.cap != int64(qcap) || a.recvQueue.cap != int64(qcap) || b.sendQueue.cap != int64(qcap) || b.recvQueue.cap != int64(qcap) {
		r.Violf("queue capacities %d %d %d %d, configured %d", a.sendQueue.cap, a.recvQueue.cap, b.sendQueue.cap, b.recvQueue.cap, qcap)
		return
	}
	type dirT struct {
		name     string
		from, to *queue
		same     *queue
	}
	for _, d := range []dirT{{"A->B", a.sendQueue, b.recvQueue, a.recvQueue}, {"B->A", b.sendQueue, a.recvQueue, b.recvQueue}} {
		n := int(qcap)
		if n > 5 {
			n = 5
		}
		for k := 0; k < n; k++ {
			if err := d.from.put(queueElement{seqID: uint32(100 + k), offsetInShmBuf: uint32(7*k + 1), status: uint32(k)}); err != nil {
				r.Violf("%s: put %d into an empty queue of cap %d failed: %v", d.name, k, qcap, err)
				return
			}
		}
		if qcap <= 5 {
			if err := d.from.put(queueElement{}); err != ErrQueueFull {
				r.Violf("%s: put into a full queue (cap %d) returned %v", d.name, qcap, err)
				return
			}
		}
		if _, err := d.same.pop(); err == nil {
			r.Violf("%s: element surfaced on the sender's own receive queue (not cross-wired)", d.name)
			return
		}
		for k := 0; k < n; k++ {
			e, err := d.to.pop()
			if err != nil || e.seqID != uint32(100+k) || e.offsetInShmBuf != uint32(7*k+1) || e.status != uint32(k) {
				r.Violf("%s: pop %d on the peer's receive queue = %+v, %v", d.name, k, e, err)
				return
			}
		}
		if _, err := d.to.pop(); err == nil {
			r.Violf("%s: extra element on the peer's receive queue", d.name)
			return
		}
		if d.from.size() != 0 {
			r.Violf("%s: sender sees size %d after the peer drained", d.name, d.from.size())
			return
		}
	}
	// working flag is one shared cell per direction
	if !a.sendQueue.markWorking() || !b.recvQueue.consumerIsWorking() || a.recvQueue.consumerIsWorking() {
		r.Violf("working flag of A.send is not the flag of B.recv")
		return
	}
	b.recvQueue.markNotWorking()
	if a.sendQueue.consumerIsWorking() {
		r.Violf("working flag cleared by B.recv still set on A.send")
	}
}

func c03Labels(c c03Case, r *runCtx) (sortedSizes []uint32) {
	sum := uint32(0)
	unsorted := false
	for i, p := range c.Pairs {
		sum += p.Percent
		if i > 0 && p.Size < c.Pairs[i-1].Size {
			unsorted = true
		}
		sortedSizes = append(sortedSizes, p.Size)
	}
	sort.Slice(sortedSizes, func(i, j int) bool { return sortedSizes[i] < sortedSizes[j] })
	if unsorted {
		r.Label("unsorted")
	}
	if sum < 100 {
		r.Label("sum<100")
	} else if sum > 100 {
		r.Label("sum>100")
	}
	if c.Offset != 0 {
		r.Label("offset")
	}
	if len(c.Pairs) >= 2 {
		r.Label("multi-class")
	}
	return
}

var c03Buf []byte

func c03RunSlice(c c03Case, r *runCtx) {
	sortedSizes := c03Labels(c, r)
	if len(c03Buf) < c.Mem {
		c03Buf = make([]byte, c.Mem)
	}
	mem := c03Buf[:c.Mem:c.Mem]
	for i := range mem {
		mem[i] = c.Junk
	}
	pairs := c.pairs()
	sort.Sort(sizePercentPairs(pairs)) // what both callers of createBufferManager do
	cbm, err := createBufferManager(pairs, "c03", mem, c.Offset)
	if err != nil {
		r.Label("create-error")
		if cbm != nil {
			r.Violf("createBufferManager returned both a manager and an error")
		}
	} else {
		r.Label("create-ok")
		pbm, err := mappingBufferManager("c03", mem, c.Offset)
		if err != nil {
			r.Violf("creator succeeded but the peer cannot map the same memory: %v", err)
			return
		}
		c03CheckManagers(c, r, cbm, pbm, len(mem), sortedSizes)
		if r.Failed() {
			return
		}
	}
	// queues on plain memory, wired as createQueueManager / mappingQueueManager do
	memSize := countQueueMemSize(c.QueueCap) * queueCount
	qmem := make([]byte, memSize)
	a := &queueManager{sendQueue: createQueueFromBytes(qmem[:memSize/2], c.QueueCap), recvQueue: createQueueFromBytes(qmem[memSize/2:], c.QueueCap)}
	b := &queueManager{sendQueue: mappingQueueFromBytes(qmem[memSize/2:]), recvQueue: mappingQueueFromBytes(qmem[:memSize/2])}
	c03CheckQueues(r, a, b, c.QueueCap)
}

func c03RunReal(c c03Case, r *runCtx) {
	sortedSizes := c03Labels(c, r)
	name := uniqueName("c03")
	conf := DefaultConfig()
	conf.ShareMemoryBufferCap = uint32(c.Mem)
	conf.BufferSliceSizes = c.pairs()
	conf.QueueCap = c.QueueCap
	if err := VerifyConfig(conf); err != nil {
		harnessFail("generator produced a configuration VerifyConfig rejects: %v", err)
	}
	path := "/dev/shm/" + name + bufferPathSuffix
	qpath := "/dev/shm/" + name + "_queue"
	var cbm *bufferManager
	var err error
	var fd int
	if c.Backend == 1 {
		r.Label("file")
		cbm, err = getGlobalBufferManager(path, uint32(c.Mem), true, conf.BufferSliceSizes)
	} else {
		r.Label("memfd")
		cbm, err = getGlobalBufferManagerWithMemFd(path, 0, uint32(c.Mem), true, conf.BufferSliceSizes)
	}
	if err != nil {
		r.Label("create-error")
		if c.Backend == 1 {
			if _, e := os.Stat(path); e == nil {
				// Session.initMemManager removes the file itself on this path; mimic it, and count it
				r.Label("file-left-by-failed-create")
				os.Remove(path)
			}
		}
	} else {
		r.Label("create-ok")
		// independent second mapping of the same object, as the peer process would make
		if c.Backend == 1 {
			f, e := os.OpenFile(path, os.O_RDWR, 0)
			if e != nil {
				r.Violf("creator succeeded but %s cannot be opened: %v", path, e)
				return
			}
			fd = int(f.Fd())
			defer f.Close()
		} else {
			fd = cbm.memFd
		}
		var st syscall.Stat_t
		if e := syscall.Fstat(fd, &st); e != nil || st.Size != int64(c.Mem) {
			r.Violf("backing object has size %d (err %v), configured %d", st.Size, e, c.Mem)
			return
		}
		mem2, e := syscall.Mmap(fd, 0, int(st.Size), syscall.PROT_READ|syscall.PROT_WRITE, syscall.MAP_SHARED)
		if e != nil {
			harnessFail("second mmap: %v", e)
		}
		pbm, e := mappingBufferManager(path, mem2, 0)
		if e != nil {
			r.Violf("creator succeeded but the peer cannot map the same memory: %v", e)
		} else {
			c03CheckManagers(c, r, cbm, pbm, c.Mem, sortedSizes)
		}
		syscall.Munmap(mem2)
		addGlobalBufferManagerRefCount(path, -1)
		if c.Backend == 1 {
			if _, e := os.Stat(path); e == nil {
				r.Violf("buffer file %s still exists after the last reference was dropped", path)
				os.Remove(path)
			}
		}
		if r.Failed() {
			return
		}
	}
	// queues through the real constructors
	var qa, qb *queueManager
	if c.Backend == 1 {
		qa, err = createQueueManager(qpath, c.QueueCap)
		if err != nil {
			harnessFail("createQueueManager: %v", err)
		}
		qb, err = mappingQueueManager(qpath)
	} else {
		qa, err = createQueueManagerWithMemFd(qpath, c.QueueCap)
		if err != nil {
			harnessFail("createQueueManagerWithMemFd: %v", err)
		}
		nfd, e := syscall.Dup(qa.memFd)
		if e != nil {
			harnessFail("dup: %v", e)
		}
		qb, err = mappingQueueManagerMemfd(qpath, nfd)
	}
	if err != nil {
		r.Violf("peer cannot map the queue memory: %v", err)
		qa.unmap()
		return
	}
	if &qa.mem[0] == &qb.mem[0] {
		harnessFail("queue mappings are not independent")
	}
	c03CheckQueues(r, qa, qb, c.QueueCap)
	if c.Backend == 1 {
		// only one side may remove the file; the mapping side's unmap() removes it as well (same code) - tolerate ENOENT silently
		qb.mmapMapType = MemMapTypeMemFd
		qb.memFd = -1
	}
	qb.unmap()
	qa.unmap()
	if c.Backend == 1 {
		if _, e := os.Stat(qpath); e == nil {
			r.Violf("queue file %s still exists after unmap", qpath)
			os.Remove(qpath)
		}
	}
}

const c03Rule = "generated (size,percent) lists (1-6 classes, boundary-biased sizes, percent sums <,=,> 100, unsorted, duplicate sizes), memory sizes, offsets and queue capacities; " +
	"non-trivial = creation succeeded and at least one slot was allocated through one view and read+recycled through the other; distinct by hash of the case"

func TestVerifC03Layout(t *testing.T) {
	runCheck(t, checkDef[c03Case]{name: "TestVerifC03Layout", rule: c03Rule, gen: c03GenSlice, run: c03RunSlice,
		assumptions: []string{"memory <= 4 MiB so that the uint32 layout arithmetic cannot overflow (sizes near 4 GiB are not generated)",
			"pairs are sorted before createBufferManager, as both of its callers do"}})
}

func TestVerifC03Backends(t *testing.T) {
	runCheck(t, checkDef[c03Case]{name: "TestVerifC03Backends", rule: c03Rule + "; real /dev/shm file and memfd back-ends, second view = independent mmap made by the harness",
		gen: c03GenReal, run: c03RunReal,
		assumptions: []string{"configurations pass VerifyConfig (memory >= 1 MiB, percent sum 100)"}})
}
