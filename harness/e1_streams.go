//go:build verif

package shmipc

// Engine E1, stream scenarios: a small op language for application threads on both ends of 1-3 streams of the
// hand-wired session pair; the interpreter records a history that the per-property oracles (C07, C10, C11, C20) judge.

import (
	"fmt"
	"strings"
	"sync/atomic"

	"github.com/cloudwego/shmipc-go/vsched"
)

type sOp struct {
	K  string `json:"k"`            // flush | close | readall | readn | sclose(session close) | yield
	N  int    `json:"n,omitempty"`  // bytes
	FB bool   `json:"fb,omitempty"` // flush: force the socket fallback for this message (shared memory hogged while writing)
}

// cbPolicy: behaviour of OnData at its k-th invocation (cycled): consume Take bytes (0 = everything available), optionally Close
type cbPolicy struct {
	Take  int  `json:"take"`
	Close bool `json:"close,omitempty"`
	// More > 0: the invocation asks the reader for up to More bytes beyond what has arrived (a message that spans several
	// flushes): it waits inside OnData until the peer's next flush - bounded by what the peer is going to flush at all
	More int `json:"more,omitempty"`
}

type sEnd struct {
	Prog []sOp      `json:"prog,omitempty"` // one application thread
	CB   []cbPolicy `json:"cb,omitempty"`   // non-empty: callback mode (no read ops in Prog)
	// a second thread on the same end (e.g. a concurrent closer)
	Prog2 []sOp `json:"prog2,omitempty"`
	// callback mode: once OnData has consumed AckAt bytes in total it flushes a one-byte acknowledgement (0 = never)
	AckAt int `json:"ack_at,omitempty"`
	// callback mode: a policy's More is not bounded by what the peer is going to flush: the invocation waits for bytes that never
	// come, only a close of the stream or the end of the session can release it
	WaitBeyond bool `json:"wait_beyond,omitempty"`
}

type sStream struct {
	C sEnd `json:"c"`
	S sEnd `json:"s"`
}

type streamsCase struct {
	Cfg     simCfg    `json:"cfg"`
	Streams []sStream `json:"streams"`
	Sched   schedPlan `json:"sched"`
	// SessEnd: after every program has finished (or is parked for good), end the session from the client (1) or the server (2) side
	SessEnd int `json:"sess_end,omitempty"`
}

// ---- recorded history ----
type endHist struct {
	stream      *Stream
	flushed     []byte // successfully flushed bytes (this end as writer)
	flushErrs   []string
	read        []byte // bytes obtained by read ops or OnData
	readErr     string // error that ended readall / a failed readn
	readDone    bool
	closeRet    []string // results of Close calls ("<nil>" or error)
	closeCalled bool
	onData      int
	onLocal     int
	onRemote    int
	inOnData    int
	maxInOnData int
	dataAfterRemoteClose bool
	remoteCloseBeforeBytes int // bytes consumed when OnRemoteClose fired (-1 = not fired)
	progDone    [2]bool
	states      []uint32 // distinct consecutive states observed
	fbAtClose   bool     // writer side was in fallback state when it called Close
	sentFB      bool
	sentShmAfterFBWindow bool
	closedLocallyAt int // bytes consumed by OnData when local Close was called (-1 none)
	onDataAfterLocalClose bool
	afterCloseTrace       string
	waitedInOnData        int
	onDataSeenClosed      int
	closedInCallback bool
}

type streamsHist struct {
	w       *simWorld
	sc      *vsched.Sched
	ends    [][2]*endHist // [stream][0 client,1 server]
	viol    string
	res     vsched.Result
	obs     *schedObs
	ids     []uint32
	hogging bool
	sessEnded bool
}

type cbAdapter struct {
	h     *streamsHist
	e     *endHist
	pol   []cbPolicy
	key   uint32
	ackAt int
	acked bool
	fail  func(string, ...interface{})
	// expect: bytes the peer's programs are going to flush in total (bound for More)
	expect int
	noMore bool
	beyond bool
}

func (a *cbAdapter) OnData(reader BufferReader) {
	e := a.e
	e.inOnData++
	if e.inOnData > e.maxInOnData {
		e.maxInOnData = e.inOnData
	}
	// "stops being offered once the stream is closed": an invocation after a Close issued inside an earlier OnData (same goroutine,
	// no race possible) is a violation at once; when another goroutine closes, the invocation that was already decided when the
	// state flipped (the loop tests the state, then calls) cannot be told from one that was in progress - a second one can.
	if st := atomic.LoadUint32(&e.stream.state); st == uint32(streamClosed) || e.closedInCallback {
		e.onDataSeenClosed++
		if (e.closedInCallback || e.onDataSeenClosed >= 2) && !e.onDataAfterLocalClose {
			e.onDataAfterLocalClose = true
			if a.h.sc != nil {
				e.afterCloseTrace = fmt.Sprintf("state %d, closed inside a callback=%v, invocations that found the stream closed=%d; scheduling points up to that OnData: %v", st, e.closedInCallback, e.onDataSeenClosed, a.h.sc.Tail(64))
			}
		}
	}
	p := a.pol[e.onData%len(a.pol)]
	e.onData++
	n := reader.Len()
	if p.Take > 0 && p.Take < n {
		n = p.Take
	}
	waits := false
	if p.More > 0 && !a.noMore {
		more := a.expect - len(e.read) - reader.Len()
		if more > p.More || a.beyond {
			more = p.More
		}
		if more > 0 {
			n = reader.Len() + more
			waits = true
			e.waitedInOnData++
		}
	}
	if n > 0 {
		b, err := reader.ReadBytes(n)
		if err != nil && waits {
			// the rest never came (a close ended the wait): nothing was consumed; later invocations take what is there
			a.noMore = true
		} else if err != nil {
			a.fail("OnData: ReadBytes(%d) with Len()=%d failed: %v", n, reader.Len(), err)
		} else {
			e.read = append(e.read, b...)
		}
		reader.ReleasePreviousRead()
	}
	if a.ackAt > 0 && !a.acked && len(e.read) >= a.ackAt {
		a.acked = true
		e.stream.BufferWriter().WriteByte(0x5a)
		if err := e.stream.Flush(false); err != nil {
			e.flushErrs = append(e.flushErrs, err.Error())
		} else {
			e.flushed = append(e.flushed, 0x5a)
		}
	}
	if p.Close && !e.closeCalled {
		e.closeCalled = true
		e.closedLocallyAt = len(e.read)
		err := e.stream.Close()
		e.closeRet = append(e.closeRet, fmt.Sprint(err))
		e.closedInCallback = true
	}
	e.inOnData--
}
func (a *cbAdapter) OnLocalClose() { a.e.onLocal++ }
func (a *cbAdapter) OnRemoteClose() {
	a.e.onRemote++
	if a.e.remoteCloseBeforeBytes < 0 {
		a.e.remoteCloseBeforeBytes = len(a.e.read)
	}
}

// flushTotal: bytes the programs of one end are going to flush
func flushTotal(e sEnd) int {
	n := 0
	for _, p := range [][]sOp{e.Prog, e.Prog2} {
		for _, op := range p {
			if op.K == "flush" {
				n += op.N
			}
		}
	}
	if len(e.CB) > 0 && e.AckAt > 0 {
		n++
	}
	return n
}

type simListenCB struct{ onNew func(s *Stream) }

func (l *simListenCB) OnNewStream(s *Stream)  { l.onNew(s) }
func (l *simListenCB) OnShutdown(reason string) {}

// runStreams interprets the case under its schedule and returns the history.
func runStreams(c streamsCase, r *runCtx) *streamsHist { return runStreamsObs(c, r, nil) }

func runStreamsObs(c streamsCase, r *runCtx, setup func(h *streamsHist)) *streamsHist {
	w := newSimWorld(c.Cfg)
	h := &streamsHist{w: w, obs: &schedObs{}}
	fail := func(format string, a ...interface{}) {
		if h.viol == "" {
			h.viol = fmt.Sprintf(format, a...)
		}
	}
	sc := vsched.New(c.Sched.picker(h.obs))
	h.sc = sc
	h.obs.lastPoint = sc.LastPoint
	w.spawnInfra(sc)
	serverStreams := map[uint32]*Stream{}
	idIndex := map[uint32]int{}
	newEnd := func() *endHist { return &endHist{remoteCloseBeforeBytes: -1, closedLocallyAt: -1} }
	anyServerCB := false
	for range c.Streams {
		h.ends = append(h.ends, [2]*endHist{newEnd(), newEnd()})
	}
	// server side: streams surface through the listen callback (callbacks are installed there, before any data is filled in)
	w.server.config.listenCallback = &simListenCB{onNew: func(s *Stream) {
		i, ok := idIndex[s.id]
		if !ok {
			fail("server was offered a stream with unknown id %d", s.id)
			return
		}
		if serverStreams[s.id] != nil {
			// a second stream object for the same id (data arrived after the first one was closed): by design it surfaces again;
			// the scenarios close it at once like an application that does not expect it
			h.ends[i][1].dataAfterRemoteClose = true
			vsched.Go(func() { s.Close() })
			return
		}
		serverStreams[s.id] = s
		e := h.ends[i][1]
		e.stream = s
		if len(c.Streams[i].S.CB) > 0 {
			if err := s.SetCallbacks(&cbAdapter{h: h, e: e, pol: c.Streams[i].S.CB, key: s.id, ackAt: c.Streams[i].S.AckAt, fail: fail, expect: flushTotal(c.Streams[i].C), beyond: c.Streams[i].S.WaitBeyond}); err != nil {
				fail("SetCallbacks: %v", err)
			}
		}
	}}
	for i := range c.Streams {
		if len(c.Streams[i].S.CB) > 0 {
			anyServerCB = true
		}
	}
	_ = anyServerCB
	// state sampling at every scheduling decision
	h.obs.onStep = func(cur int) {
		for i := range h.ends {
			for e := 0; e < 2; e++ {
				eh := h.ends[i][e]
				if eh.stream == nil {
					continue
				}
				st := atomic.LoadUint32(&eh.stream.state) // not getStreamState(): instrumented code must not run on the scheduler goroutine
				if n := len(eh.states); n == 0 || eh.states[n-1] != st {
					eh.states = append(eh.states, st)
				}
			}
		}
	}
	runProg := func(i, e, which int, prog []sOp) {
		eh := h.ends[i][e]
		// server-side threads wait until their stream has surfaced
		// (no instrumented call between the check and BlockYield, or the wake-up could be lost in the harness itself)
		for eh.stream == nil {
			if atomic.LoadUint32(&w.server.shutdown) == 1 {
				eh.progDone[which] = true
				return
			}
			vsched.BlockYield()
		}
		st := eh.stream
		dir := uint32(e)
		key := st.id*2 + dir
		for _, op := range prog {
			switch op.K {
			case "flush":
				data := keyedBytes(key, len(eh.flushed), op.N)
				var hog []*bufferSlice
				if op.FB {
					vsched.NoYield(func() { hog = w.hogAll() })
				}
				_, err := st.BufferWriter().WriteBytes(data)
				if op.FB {
					vsched.NoYield(func() { w.unhog(hog) })
				}
				if err != nil {
					fail("stream %d end %d: WriteBytes(%d): %v", st.id, e, op.N, err)
					return
				}
				fb := st.inFallbackState || !st.sendBuf.isFromShm
				err = st.Flush(false)
				if err == nil {
					eh.flushed = append(eh.flushed, data...)
					if fb {
						eh.sentFB = true
					}
				} else {
					eh.flushErrs = append(eh.flushErrs, err.Error())
				}
			case "close":
				eh.closeCalled = true
				if eh.closedLocallyAt < 0 {
					eh.closedLocallyAt = len(eh.read)
				}
				eh.fbAtClose = st.inFallbackState
				err := st.Close()
				eh.closeRet = append(eh.closeRet, fmt.Sprint(err))
			case "readall":
				buf := make([]byte, 64)
				for {
					n, err := st.Read(buf)
					eh.read = append(eh.read, buf[:n]...)
					if err != nil {
						eh.readErr = err.Error()
						break
					}
					if n == 0 {
						fail("stream %d end %d: Read returned (0, nil)", st.id, e)
						return
					}
				}
				eh.readDone = true
			case "readn":
				closedBefore := eh.closeCalled && len(eh.closeRet) > 0
				b, err := st.BufferReader().ReadBytes(op.N)
				if err == nil && closedBefore {
					fail("stream %d end %d: ReadBytes(%d) issued after the local Close had returned delivered %d bytes instead of a closed-stream error", st.id, e, op.N, len(b))
					return
				}
				if err != nil {
					eh.readErr = err.Error()
				} else {
					eh.read = append(eh.read, b...)
					st.BufferReader().ReleasePreviousRead()
				}
				eh.readDone = true
			case "sclose":
				if e == 0 {
					w.client.Close()
				} else {
					w.server.Close()
				}
			case "yield":
				vsched.Point("app.yield")
			case "quiet":
				// wait until nothing can move any more: readers are blocked in their wait, nothing is in flight.
				// (Close / Session.Close racing an *active* reader of the same stream is known finding close-races-active-reader.)
				vsched.BlockUntilQuiet()
			}
		}
		eh.progDone[which] = true
	}
	for i := range c.Streams {
		st, err := w.client.OpenStream()
		if err != nil {
			harnessFail("OpenStream: %v", err)
		}
		idIndex[st.id] = i
		h.ids = append(h.ids, st.id)
		ce := h.ends[i][0]
		ce.stream = st
		if len(c.Streams[i].C.CB) > 0 {
			if err := st.SetCallbacks(&cbAdapter{h: h, e: ce, pol: c.Streams[i].C.CB, key: st.id, ackAt: c.Streams[i].C.AckAt, fail: fail, expect: flushTotal(c.Streams[i].S), beyond: c.Streams[i].C.WaitBeyond}); err != nil {
				harnessFail("SetCallbacks: %v", err)
			}
		}
		ii := i
		for e := 0; e < 2; e++ {
			ee := e
			end := c.Streams[i].C
			if e == 1 {
				end = c.Streams[i].S
			}
			if len(end.Prog) > 0 {
				p := end.Prog
				sc.Spawn(fmt.Sprintf("s%d.%s", i, []string{"c", "s"}[e]), func() { runProg(ii, ee, 0, p) })
			} else {
				h.ends[i][e].progDone[0] = true
			}
			if len(end.Prog2) > 0 {
				p := end.Prog2
				sc.Spawn(fmt.Sprintf("s%d.%s2", i, []string{"c", "s"}[e]), func() { runProg(ii, ee, 1, p) })
			} else {
				h.ends[i][e].progDone[1] = true
			}
		}
	}
	if c.SessEnd != 0 {
		sc.Spawn("sessend", func() {
			allDone := func() bool {
				for i := range h.ends {
					for e := 0; e < 2; e++ {
						if !h.ends[i][e].progDone[0] || !h.ends[i][e].progDone[1] {
							return false
						}
					}
				}
				return true
			}
			// strictly after the programs: a session torn down under an active call is known finding close-races-active-user (C14)
			for round := 0; round < 12; round++ {
				vsched.BlockUntilQuiet()
				if allDone() {
					break
				}
			}
			h.sessEnded = true
			if c.SessEnd == 1 {
				w.client.Close()
			} else {
				w.server.Close()
			}
		})
	}
	if setup != nil {
		setup(h)
	}
	h.res = sc.Run(600000)
	r.Count("sched_steps", sc.Steps)
	if h.res.Err != "" && h.viol == "" {
		h.viol = "run did not complete: " + h.res.Err
	}
	return h
}

// worldState describes what is still in flight (for violation messages)
func (h *streamsHist) worldState() string {
	w := h.w
	q := func(s *Session) string {
		if s.queueManager == nil {
			return "unmapped"
		}
		return fmt.Sprintf("recvQ=%d flag=%d", s.queueManager.recvQueue.size(), *s.queueManager.recvQueue.workingFlag)
	}
	return fmt.Sprintf("client{%s inbox=%d unread=%d lambdas=%d sendCh=%d closed=%v} server{%s inbox=%d unread=%d lambdas=%d sendCh=%d closed=%v}",
		q(w.client), len(w.cc.inbox), len(w.cc.unread), len(w.cd.lambdas), len(w.client.sendCh), w.client.IsClosed(),
		q(w.server), len(w.sc.inbox), len(w.sc.unread), len(w.sd.lambdas), len(w.server.sendCh), w.server.IsClosed())
}

func (h *streamsHist) blockedApps() []string {
	var out []string
	for _, b := range h.res.Blocked {
		if strings.HasPrefix(b, "cloop") || strings.HasPrefix(b, "sloop") || strings.HasPrefix(b, "csend") || strings.HasPrefix(b, "ssend") {
			continue
		}
		out = append(out, b)
	}
	return out
}

func stateSeqOK(states []uint32) bool {
	// open(0) -> half-closed(2) -> closed(1), or open -> closed; never backwards
	// (state 3 = closed locally while a callback runs, introduced by the fix of D7; it is a half-closed state)
	rank := map[uint32]int{uint32(streamOpened): 0, uint32(streamHalfClosed): 1, 3: 1, uint32(streamClosed): 2}
	last := -1
	for _, s := range states {
		rk, ok := rank[s]
		if !ok || rk <= last {
			return false
		}
		last = rk
	}
	return true
}
