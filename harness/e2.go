//go:build verif

package shmipc

// Engine E2 common layer: real client/server Session pairs in one process, pressure (hogging), clean-baseline check.

import (
	"fmt"
	"net"
	"os"
	"strings"
	"time"

	syscall "golang.org/x/sys/unix"
)

type pairCfg struct {
	MemFd    bool      `json:"memfd"`
	BufCap   uint32    `json:"buf_cap"`
	Sizes    []c03Pair `json:"sizes"`
	QueueCap uint32    `json:"queue_cap"`
}

var defaultPairCfg = pairCfg{MemFd: true, BufCap: 1 << 20, QueueCap: 8192,
	Sizes: []c03Pair{{64, 1}, {256, 1}, {1024, 2}, {65536, 96}}}

func (c pairCfg) key() string { return fmt.Sprintf("%v", c) }

type pairT struct {
	cfg  pairCfg
	c, s *Session
	hog  []*bufferSlice
	caps []uint32 // slice capacity per class (ascending)
}

func socketPair() (net.Conn, net.Conn) {
	fds, err := syscall.Socketpair(syscall.AF_UNIX, syscall.SOCK_STREAM|syscall.SOCK_CLOEXEC, 0)
	if err != nil {
		harnessFail("socketpair: %v", err)
	}
	mk := func(fd int) net.Conn {
		f := os.NewFile(uintptr(fd), "sp")
		c, err := net.FileConn(f)
		f.Close()
		if err != nil {
			harnessFail("FileConn: %v", err)
		}
		return c
	}
	return mk(fds[0]), mk(fds[1])
}

func (c pairCfg) config() *Config {
	conf := DefaultConfig()
	conf.LogOutput = nil
	conf.ShareMemoryBufferCap = c.BufCap
	conf.QueueCap = c.QueueCap
	conf.ConnectionWriteTimeout = 20 * time.Second
	conf.InitializeTimeout = 10 * time.Second
	name := uniqueName("p")
	conf.ShareMemoryPathPrefix = "/dev/shm/" + name
	conf.QueuePath = "/dev/shm/" + name + "_queue"
	if c.MemFd {
		conf.MemMapType = MemMapTypeMemFd
	}
	conf.BufferSliceSizes = nil
	for _, p := range c.Sizes {
		conf.BufferSliceSizes = append(conf.BufferSliceSizes, &SizePercentPair{Size: p.Size, Percent: p.Percent})
	}
	return conf
}

func newPairFromConfigs(cconf, sconf *Config) (*Session, *Session, error, error) {
	cc, sc := socketPair()
	return newPairFromConns(cconf, sconf, cc, sc)
}

func newPairFromConns(cconf, sconf *Config, cc, sc net.Conn) (*Session, *Session, error, error) {
	type res struct {
		s   *Session
		err error
	}
	ch := make(chan res, 1)
	go func() {
		s, err := newSession(sconf, sc, false)
		ch <- res{s, err}
	}()
	client, cerr := newSession(cconf, cc, true)
	r := <-ch
	return client, r.s, cerr, r.err
}

func newPair(cfg pairCfg) *pairT {
	conf := cfg.config()
	sconf := *conf
	client, server, cerr, serr := newPairFromConfigs(conf, &sconf)
	if cerr != nil || serr != nil {
		harnessFail("cannot establish session pair: client %v server %v", cerr, serr)
	}
	p := &pairT{cfg: cfg, c: client, s: server}
	for _, l := range client.bufferManager.lists {
		p.caps = append(p.caps, *l.capPerBuffer)
	}
	return p
}

var pairCache = map[string]*pairT{}

func (p *pairT) close() {
	p.unhog()
	p.c.Close()
	p.s.Close()
}

// clean: no hogged buffers, every class full, no active streams, nothing waiting to be accepted, both sessions alive.
func (p *pairT) clean() bool {
	if p.c.IsClosed() || p.s.IsClosed() || len(p.hog) != 0 {
		return false
	}
	if p.c.GetActiveStreamCount() != 0 || p.s.GetActiveStreamCount() != 0 || len(p.s.acceptCh) != 0 {
		return false
	}
	if p.c.queueManager.recvQueue.size() != 0 || p.s.queueManager.recvQueue.size() != 0 {
		return false
	}
	return p.allFree()
}

// dirt describes why the pair is not clean (for labels)
func (p *pairT) dirt() string {
	var d []string
	if p.c.IsClosed() || p.s.IsClosed() {
		d = append(d, "session-closed")
	}
	if n := p.c.GetActiveStreamCount(); n != 0 {
		d = append(d, "client-streams")
	}
	if n := p.s.GetActiveStreamCount(); n != 0 {
		d = append(d, "server-streams")
	}
	if len(p.s.acceptCh) != 0 {
		d = append(d, "accept-backlog")
	}
	if !p.allFree() {
		d = append(d, "shm-not-free")
	}
	return strings.Join(d, "+")
}

func (p *pairT) allFree() bool {
	for _, l := range p.c.bufferManager.lists {
		if uint32(*l.size) != *l.cap {
			return false
		}
	}
	return true
}

// settle waits until the pair is clean; server-side streams re-created by data that was still in flight when the
// application closed its end ("ghosts": by design they surface through AcceptStream) are accepted and closed like an application would.
func (p *pairT) settle(d time.Duration, r *runCtx) bool {
	return waitUntil(d, func() bool {
		for {
			select {
			case st := <-p.s.acceptCh:
				st.Close()
				if r != nil {
					r.Count("ghost_stream_closed", 1)
				}
				continue
			default:
			}
			break
		}
		return p.clean()
	})
}

func (p *pairT) freeCounts() []int {
	var r []int
	for _, l := range p.c.bufferManager.lists {
		r = append(r, int(*l.size))
	}
	return r
}

// getPair returns a shared pair for cfg whose state is verified clean; dirty pairs are discarded and rebuilt.
func getPair(cfg pairCfg, r *runCtx) *pairT {
	k := cfg.key()
	if p := pairCache[k]; p != nil {
		if p.settle(200*time.Millisecond, r) {
			return p
		}
		if r != nil {
			r.Count("dirty_pair_rebuilt", 1)
		}
		p.close()
		delete(pairCache, k)
	}
	if len(pairCache) > 6 {
		for kk, pp := range pairCache {
			pp.close()
			delete(pairCache, kk)
		}
	}
	p := newPair(cfg)
	pairCache[k] = p
	return p
}

func dropPair(p *pairT) {
	p.close()
	delete(pairCache, p.cfg.key())
}

// hogTo pops slots of every class until only keep[i] allocatable slots remain (remain() counts the never-allocated last slot out).
func (p *pairT) hogTo(keep []int) {
	for i, l := range p.c.bufferManager.lists {
		k := 0
		if i < len(keep) {
			k = keep[i]
		}
		for l.remain() > k {
			b, err := l.pop()
			if err != nil {
				break
			}
			p.hog = append(p.hog, b)
		}
	}
}

func (p *pairT) unhog() {
	for _, b := range p.hog {
		p.c.bufferManager.recycleBuffer(b)
	}
	p.hog = nil
}

func acceptWithin(s *Session, d time.Duration) *Stream {
	select {
	case st := <-s.acceptCh:
		return st
	case <-time.After(d):
		return nil
	}
}

func isTimeout(err error) bool {
	return err == ErrTimeout || (err != nil && strings.Contains(err.Error(), "deadline"))
}

const e2Stall = 20 * time.Second

// pokeDispatcher makes the shared epoll loop return from its (up to 1 s) idle wait, so that posted lambdas - the second half of
// every Session.Close - run now. A spare session pair receives a polling event, which is harmless on an empty queue.
var pokePair *pairT

func pokeDispatcher() {
	if pokePair == nil || pokePair.c.IsClosed() || pokePair.s.IsClosed() {
		pokePair = newPair(defaultPairCfg)
	}
	_ = pokePair.c.eventConn.write(pollingEventWithVersion[pokePair.c.communicationVersion])
}

// waitPoked is waitUntil with the dispatcher kept awake.
func waitPoked(d time.Duration, cond func() bool) bool {
	deadline := time.Now().Add(d)
	for i := 0; ; i++ {
		if cond() {
			return true
		}
		if time.Now().After(deadline) {
			return cond()
		}
		pokeDispatcher()
		if i < 20 {
			time.Sleep(50 * time.Microsecond)
		} else {
			time.Sleep(time.Millisecond)
		}
	}
}
