//go:build verif

package shmipc

// C14 part 2 - real peer death: the peer runs in a child process (this test binary re-executed) and is killed with SIGKILL
// at a generated point of the workload; the survivor in this process is judged.

import (
	"runtime"
	"fmt"
	"net"
	"os"
	"os/exec"
	"runtime/debug"
	"strings"
	"sync"
	"sync/atomic"
	"syscall"
	"testing"
	"time"

	"pgregory.net/rapid"
)

// TestVerifHelperPeer is the child: it never returns (it is killed).
func TestVerifHelperPeer(t *testing.T) {
	role := os.Getenv("VERIF_HELPER")
	if role == "" {
		t.Skip("helper only")
	}
	path := os.Getenv("VERIF_HELPER_PATH")
	memfd := os.Getenv("VERIF_HELPER_MEMFD") == "1"
	size := envInt("VERIF_HELPER_SIZE", 64)
	switch role {
	case "echo-server":
		es := &echoServer{streams: map[string]*Stream{}, path: path}
		conf := NewDefaultListenerConfig(path, "unix")
		conf.Config.LogOutput = nil
		conf.Config.InitializeTimeout = 10 * time.Second
		ln, err := NewListener(es, conf)
		if err != nil {
			fmt.Println("HELPER-ERROR", err)
			os.Exit(3)
		}
		ln.Run()
	case "client":
		var conn net.Conn
		var err error
		for i := 0; i < 200; i++ {
			conn, err = net.Dial("unix", path)
			if err == nil {
				break
			}
			time.Sleep(5 * time.Millisecond)
		}
		if err != nil {
			os.Exit(3)
		}
		cfg := defaultPairCfg
		cfg.MemFd = memfd
		conf := cfg.config()
		conf.ShareMemoryPathPrefix = os.Getenv("VERIF_HELPER_PREFIX")
		conf.QueuePath = conf.ShareMemoryPathPrefix + "_queue"
		s, err := newSession(conf, conn, true)
		if err != nil {
			os.Exit(4)
		}
		var wg sync.WaitGroup
		for w := 0; w < envInt("VERIF_HELPER_WORKERS", 1); w++ {
			wg.Add(1)
			go func(w int) {
				defer wg.Done()
				st, err := s.OpenStream()
				if err != nil {
					return
				}
				for k := 0; ; k++ {
					st.BufferWriter().WriteBytes(keyedBytes(uint32(w+1), k*size, size))
					if st.Flush(false) != nil {
						return
					}
					if _, err := st.BufferReader().ReadBytes(size); err != nil {
						return
					}
					st.BufferReader().ReleasePreviousRead()
				}
			}(w)
		}
		wg.Wait()
		time.Sleep(time.Hour)
	}
	time.Sleep(time.Hour)
}

type killCase struct {
	ChildRole string `json:"child_role"` // echo-server | client
	MemFd     bool   `json:"memfd"`
	Workers   int    `json:"workers"`
	MsgSize   int    `json:"msg_size"`
	KillAfter int    `json:"kill_after"` // kill the child after this many messages were observed by the survivor (0 = as early as possible)
	KillDelay int    `json:"kill_delay_us"`
}

func genKillCase(t *rapid.T) killCase {
	return killCase{
		ChildRole: rapid.SampledFrom([]string{"echo-server", "client"}).Draw(t, "role"),
		MemFd:     rapid.Bool().Draw(t, "memfd"),
		Workers:   rapid.IntRange(1, 3).Draw(t, "workers"),
		MsgSize:   rapid.SampledFrom([]int{1, 64, 300, 5000}).Draw(t, "size"),
		KillAfter: rapid.IntRange(0, 40).Draw(t, "k"),
		KillDelay: rapid.SampledFrom([]int{0, 0, 50, 500}).Draw(t, "delay"),
	}
}

func spawnHelper(role, path, prefix string, c killCase) *exec.Cmd {
	cmd := exec.Command(os.Args[0], "-test.run", "^TestVerifHelperPeer$", "-test.timeout", "120s")
	cmd.Env = append(os.Environ(), "VERIF_HELPER="+role, "VERIF_HELPER_PATH="+path, "VERIF_HELPER_PREFIX="+prefix,
		fmt.Sprintf("VERIF_HELPER_SIZE=%d", c.MsgSize), fmt.Sprintf("VERIF_HELPER_WORKERS=%d", c.Workers), "VERIF_REPLAY=", "VERIF_OUT=")
	if c.MemFd {
		cmd.Env = append(cmd.Env, "VERIF_HELPER_MEMFD=1")
	}
	if err := cmd.Start(); err != nil {
		harnessFail("cannot start the helper process: %v", err)
	}
	return cmd
}

type countingEcho struct {
	echoServer
	seen int64
}

type countingCB struct {
	echoStreamCB
	ce *countingEcho
}

func (c *countingCB) OnData(reader BufferReader) {
	debug.SetPanicOnFault(true)
	defer func() { recover() }() // the peer is killed on purpose; a fault here is known finding D20 and taints the case (counted by the census step)
	atomic.AddInt64(&c.ce.seen, 1)
	c.echoStreamCB.OnData(reader)
}

func (ce *countingEcho) OnNewStream(s *Stream) {
	s.SetCallbacks(&countingCB{echoStreamCB: echoStreamCB{s: s, es: &ce.echoServer}, ce: ce})
}

func killRun(c killCase, r *runCtx) {
	censusWarmupOnce()
	base := stableCensus()
	name := uniqueName("kill")
	path := "/tmp/" + name + ".sock"
	prefix := "/dev/shm/" + name
	defer os.Remove(path)
	var problems []string
	var mu sync.Mutex
	note := func(format string, a ...interface{}) {
		mu.Lock()
		problems = append(problems, fmt.Sprintf(format, a...))
		mu.Unlock()
	}
	known := int32(0)
	kill := func(cmd *exec.Cmd) {
		if c.KillDelay > 0 {
			time.Sleep(time.Duration(c.KillDelay) * time.Microsecond)
		}
		cmd.Process.Signal(syscall.SIGKILL)
		cmd.Wait()
	}
	if c.ChildRole == "echo-server" {
		cmd := spawnHelper("echo-server", path, prefix, c)
		defer func() { cmd.Process.Kill(); cmd.Wait() }()
		var conn net.Conn
		var err error
		for i := 0; i < 1000; i++ {
			conn, err = net.Dial("unix", path)
			if err == nil {
				break
			}
			time.Sleep(5 * time.Millisecond)
		}
		if err != nil {
			harnessFail("helper server never listened: %v", err)
		}
		cfg := defaultPairCfg
		cfg.MemFd = c.MemFd
		conf := cfg.config()
		var seen int64
		var client *Session
		if c.KillAfter == 0 {
			// kill while (or right after) the handshake runs
			go kill(cmd)
		}
		client, err = newSession(conf, conn, true)
		if err != nil {
			if c.KillAfter != 0 {
				harnessFail("client session against the helper: %v", err)
			}
			r.Label("killed-during-handshake:handshake-failed")
		} else {
			var wg sync.WaitGroup
			for w := 0; w < c.Workers; w++ {
				w := w
				wg.Add(1)
				go func() {
					defer wg.Done()
					debug.SetPanicOnFault(true)
					defer func() {
						if p := recover(); p != nil {
							st := string(debug.Stack())
							if fa, ok := p.(interface{ Addr() uintptr }); ok && fa.Addr() > 1<<16 {
								st += " linkedBuffer(fault)"
							}
							if knownCloseRace(st) {
								atomic.AddInt32(&known, 1)
								return
							}
							note("panic in client worker: %v\n%s", p, trimStack([]byte(st)))
						}
					}()
					st, err := client.OpenStream()
					if err != nil {
						return
					}
					for k := 0; ; k++ {
						data := keyedBytes(uint32(w+1), k*c.MsgSize, c.MsgSize)
						st.BufferWriter().WriteBytes(data)
						if err := st.Flush(false); err != nil {
							break
						}
						st.SetReadDeadline(time.Now().Add(e2Stall))
						got, err := st.BufferReader().ReadBytes(c.MsgSize)
						if err != nil {
							if isTimeout(err) {
								note("client worker %d: read still blocked %v after the peer was killed", w, e2Stall)
							}
							break
						}
						if string(got) != string(data) {
							note("client worker %d: response of round %d differs", w, k)
						}
						st.BufferReader().ReleasePreviousRead()
						atomic.AddInt64(&seen, 1)
					}
					waitPoked(4*time.Second, func() bool {
						if !client.IsClosed() {
							return false
						}
						client.shutdownLock.Lock()
						defer client.shutdownLock.Unlock()
						return client.queueManager == nil
					})
					st.BufferWriter().WriteBytes([]byte{1})
					if err := st.Flush(false); err == nil {
						note("client worker %d: Flush succeeded after the peer was killed and the session had ended", w)
					}
					if _, err := client.OpenStream(); err == nil {
						note("client worker %d: OpenStream succeeded on the dead session", w)
					}
				}()
			}
			if c.KillAfter > 0 {
				waitUntil(10*time.Second, func() bool { return atomic.LoadInt64(&seen) >= int64(c.KillAfter) })
				kill(cmd)
			}
			if !waitPoked(4*time.Second, client.IsClosed) {
				r.Violf("the peer process was killed after %d messages; 4 s later the surviving client session is still open", c.KillAfter)
			}
			done := make(chan struct{})
			go func() { wg.Wait(); close(done) }()
			select {
			case <-done:
			case <-time.After(e2Stall + 10*time.Second):
				r.Violf("the peer process was killed; workers of the survivor are still blocked after %v", e2Stall+10*time.Second)
			}
			var cw sync.WaitGroup
			for k := 0; k < 2; k++ {
				cw.Add(1)
				go func() {
					defer cw.Done()
					if err := client.Close(); err != nil {
						note("Session.Close on the survivor returned %v", err)
					}
				}()
			}
			cw.Wait()
			r.Label("survivor-client")
		}
	} else {
		ce := &countingEcho{echoServer: echoServer{streams: map[string]*Stream{}, path: path}}
		conf := NewDefaultListenerConfig(path, "unix")
		conf.Config.LogOutput = nil
		conf.Config.InitializeTimeout = 5 * time.Second
		ln, err := NewListener(ce, conf)
		if err != nil {
			harnessFail("NewListener: %v", err)
		}
		go ln.Run()
		cmd := spawnHelper("client", path, prefix, c)
		defer func() { cmd.Process.Kill(); cmd.Wait() }()
		if c.KillAfter == 0 {
			// as early as possible: while the child connects and shakes hands
			waitUntil(5*time.Second, func() bool {
				ln.sessions.sessionMu.Lock()
				defer ln.sessions.sessionMu.Unlock()
				return len(ln.sessions.data) > 0
			})
		} else {
			if !waitUntil(15*time.Second, func() bool { return atomic.LoadInt64(&ce.seen) >= int64(c.KillAfter) }) {
				harnessFail("helper client never produced %d messages", c.KillAfter)
			}
		}
		kill(cmd)
		// the server side session of the dead client must end and leave the listener
		if !waitPoked(5*time.Second, func() bool {
			ln.sessions.sessionMu.Lock()
			defer ln.sessions.sessionMu.Unlock()
			for s := range ln.sessions.data {
				if !s.IsClosed() {
					return false
				}
			}
			return true
		}) {
			r.Violf("the client process was killed after %d messages; 5 s later its server-side session is still open", c.KillAfter)
		}
		t0 := time.Now()
		ln.Close()
		if time.Since(t0) > 5*time.Second {
			r.Violf("Listener.Close took %v after the client process was killed", time.Since(t0))
		}
		r.Label("survivor-server")
	}
	mu.Lock()
	if len(problems) > 0 && !r.Failed() {
		r.Violf("child %s killed after %d messages: %s", c.ChildRole, c.KillAfter, strings.Join(problems, "\n"))
	}
	mu.Unlock()
	if nk := atomic.LoadInt32(&known); nk > 0 {
		r.Count("known_close_races_active_user", int(nk))
		r.Taint("close-races-active-user", "a worker of the survivor faulted inside a stream call that raced with the teardown after the peer was killed")
		return
	}
	if r.Failed() {
		return
	}
	if _, df := settleCensus(base, 6*time.Second); df != "" {
		// which library goroutines are still around (a wedged event loop or teardown shows here)
		buf := make([]byte, 1<<20)
		buf = buf[:runtime.Stack(buf, true)]
		var libg []string
		for _, g := range strings.Split(string(buf), "\n\n") {
			if strings.Contains(g, "shmipc-go.(*") && !strings.Contains(g, "zz_verif_") {
				lines := strings.Split(g, "\n")
				if len(lines) > 9 {
					lines = lines[:9]
				}
				libg = append(libg, strings.Join(lines, "\n"))
			}
		}
		if len(libg) > 6 {
			libg = libg[:6]
		}
		r.Violf("peer process killed (role %s, after %d messages), survivor closed: %s\nlibrary goroutines still running:\n%s", c.ChildRole, c.KillAfter, df, strings.Join(libg, "\n--\n"))
		return
	}
	if c.KillAfter > 0 {
		r.NonTrivial()
	}
	if c.MemFd {
		r.Label("memfd")
	} else {
		r.Label("file")
	}
}

func TestVerifC14Kill(t *testing.T) {
	runCheck(t, checkDef[killCase]{name: "TestVerifC14Kill", lastCase: true,
		rule: "the peer of a session runs in a child process (echo Listener, or a client with 1-3 request/response workers) and is killed with SIGKILL after the survivor has seen k messages (k = 0..40, 0 = during/right after the handshake), plus a generated delay; both mapping types; " +
			"oracle on the survivor: session closed within 4-5 s, every blocked call returns with an error and every later call fails, no panic, Close twice concurrently returns nil, Listener.Close returns, descriptors/mappings//dev/shm files (including the dead client's files) back to the baseline census; " +
			"non-trivial = the kill hit a running workload (k > 0); distinct by case hash",
		assumptions: []string{"known finding D20: a call of the survivor that is active while its session is torn down may fault; such a case is counted, the process is restarted, and the probe of D20 is replayed on every run"},
		gen:         genKillCase, run: killRun})
}
