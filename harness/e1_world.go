//go:build verif

package shmipc

// Engine E1 session level: two real Session structs wired by hand over shared byte slices, an in-memory control
// connection and a lambda queue, all driven by virtual threads (DESIGN.md 3.1 "two levels of scenario").

import (
	"errors"
	"net"
	"os"
	"time"

	"github.com/cloudwego/shmipc-go/vsched"
)

// ---- in-memory control connection implementing eventConn ----
type memConn struct {
	name        string
	peer        *memConn
	inbox       []byte // written by the peer, not yet delivered to the callback
	unread      []byte // delivered but not yet consumed
	closed      bool   // this end closed
	peerClosed  bool
	closeSeen   bool // onRemoteClose delivered
	cb          eventConnCallback
	nWrites     int
	chunks      []int // delivery chunking (cycled); <=0 = everything available
	chunkPos    int
	failWrites  bool
	deliveredAt int
}

func (c *memConn) commitRead(n int) { c.unread = c.unread[n:] }
func (c *memConn) setCallback(cb eventConnCallback) error {
	c.cb = cb
	return nil
}
func (c *memConn) write(data []byte) error {
	vsched.Point("memConn.write")
	if c.closed || c.peerClosed || c.failWrites {
		return errors.New("EPIPE (sim)")
	}
	c.nWrites++
	c.peer.inbox = append(c.peer.inbox, data...)
	return nil
}
func (c *memConn) writev(data ...[]byte) error {
	for _, d := range data {
		if err := c.write(d); err != nil {
			return err
		}
	}
	return nil
}
func (c *memConn) close() error {
	if !c.closed {
		c.closed = true
		c.peer.peerClosed = true
		c.cb.onLocalClose()
	}
	return nil
}

type simDispatcher struct{ lambdas []func() }

func (d *simDispatcher) runLoop() error                     { return nil }
func (d *simDispatcher) newConnection(f *os.File) eventConn { return nil }
func (d *simDispatcher) shutdown() error                    { return nil }
func (d *simDispatcher) post(f func())                      { d.lambdas = append(d.lambdas, f) }

type simAddr struct{}

func (simAddr) Network() string { return "sim" }
func (simAddr) String() string  { return "sim" }

type simNetConn struct{}

func (simNetConn) Read(b []byte) (int, error)         { return 0, errors.New("sim") }
func (simNetConn) Write(b []byte) (int, error)        { return 0, errors.New("sim") }
func (simNetConn) Close() error                       { return nil }
func (simNetConn) LocalAddr() net.Addr                { return simAddr{} }
func (simNetConn) RemoteAddr() net.Addr               { return simAddr{} }
func (simNetConn) SetDeadline(t time.Time) error      { return nil }
func (simNetConn) SetReadDeadline(t time.Time) error  { return nil }
func (simNetConn) SetWriteDeadline(t time.Time) error { return nil }

type simWorld struct {
	client, server *Session
	cc, sc         *memConn
	cd, sd         *simDispatcher
	stop           bool
	mem            []byte
}

type simCfg struct {
	Sizes    []c03Pair `json:"sizes"`
	BufCap   int       `json:"buf_cap"`
	QueueCap uint32    `json:"queue_cap"`
	CChunks  []int     `json:"c_chunks,omitempty"` // chunking of deliveries to the client's event handler
	SChunks  []int     `json:"s_chunks,omitempty"`
}

var defaultSimCfg = simCfg{Sizes: []c03Pair{{64, 50}, {256, 50}}, BufCap: 16 * 1024, QueueCap: 8}

func newSimWorld(cfg simCfg) *simWorld {
	mem := make([]byte, cfg.BufCap)
	var pairs []*SizePercentPair
	for _, p := range cfg.Sizes {
		pairs = append(pairs, &SizePercentPair{Size: p.Size, Percent: p.Percent})
	}
	cbm, err := createBufferManager(pairs, "sim", mem, 0)
	if err != nil {
		harnessFail("sim createBufferManager: %v", err)
	}
	sbm, err := mappingBufferManager("sim", mem, 0)
	if err != nil {
		harnessFail("sim mappingBufferManager: %v", err)
	}
	qmem := make([]byte, countQueueMemSize(cfg.QueueCap)*2)
	half := len(qmem) / 2
	cqm := &queueManager{sendQueue: createQueueFromBytes(qmem[:half], cfg.QueueCap), recvQueue: createQueueFromBytes(qmem[half:], cfg.QueueCap), mem: nil, path: "simq", mmapMapType: MemMapTypeMemFd, memFd: -1}
	sqm := &queueManager{sendQueue: mappingQueueFromBytes(qmem[half:]), recvQueue: mappingQueueFromBytes(qmem[:half]), mem: nil, path: "simq", mmapMapType: MemMapTypeMemFd, memFd: -1}
	cc, sc := &memConn{name: "c", chunks: cfg.CChunks}, &memConn{name: "s", chunks: cfg.SChunks}
	cc.peer, sc.peer = sc, cc
	w := &simWorld{cc: cc, sc: sc, cd: &simDispatcher{}, sd: &simDispatcher{}, mem: mem}
	mk := func(isClient bool, bm *bufferManager, qm *queueManager, conn *memConn, d *simDispatcher) *Session {
		conf := DefaultConfig()
		conf.LogOutput = nil
		s := &Session{
			config: conf, dispatcher: d, logger: newSessionLogger(isClient, nil),
			streams: make(map[uint32]*Stream, 16), sendCh: make(chan sendReady, 4096),
			notifyContinueWriteCh: make(chan struct{}, 1), shutdownCh: make(chan struct{}),
			isClient: isClient, communicationVersion: 3, eventConn: conn, netConn: simNetConn{},
			bufferManager: bm, queueManager: qm, handshakeDone: true, name: "sim",
		}
		if isClient {
			s.nextStreamID = 1
		} else {
			s.nextStreamID = 2
			s.acceptCh = make(chan *Stream, 1024)
		}
		conn.cb = s
		return s
	}
	w.client = mk(true, cbm, cqm, cc, w.cd)
	w.server = mk(false, sbm, sqm, sc, w.sd)
	return w
}

// eventLoop is the virtual thread standing in for the epoll loop of one side: it serialises event delivery and posted
// lambdas exactly like epollDispatcher.runLoop does.
func (w *simWorld) eventLoop(c *memConn, d *simDispatcher) {
	for !w.stop {
		switch {
		case len(c.inbox) > 0 && !c.closed:
			n := len(c.inbox)
			if len(c.chunks) > 0 {
				k := c.chunks[c.chunkPos%len(c.chunks)]
				c.chunkPos++
				if k > 0 && k < n {
					n = k
				}
			}
			c.unread = append(c.unread, c.inbox[:n]...)
			c.inbox = c.inbox[n:]
			c.cb.onEventData(c.unread, c)
		case c.peerClosed && !c.closeSeen && !c.closed:
			c.closeSeen = true
			c.cb.onRemoteClose()
			c.closed = true
		case len(d.lambdas) > 0:
			ls := d.lambdas
			d.lambdas = nil
			for _, f := range ls {
				f()
			}
		default:
			vsched.BlockYield()
		}
	}
}

// spawnInfra starts the event-loop and send threads of both sides; returns their thread ids.
func (w *simWorld) spawnInfra(sc *vsched.Sched) (ids map[string]int) {
	ids = map[string]int{}
	ids["cloop"] = sc.Spawn("cloop", func() { w.eventLoop(w.cc, w.cd) })
	ids["sloop"] = sc.Spawn("sloop", func() { w.eventLoop(w.sc, w.sd) })
	ids["csend"] = sc.Spawn("csend", w.client.send)
	ids["ssend"] = sc.Spawn("ssend", w.server.send)
	return
}

// quietAndDrained: nothing in flight on the control connection or in the lambda queues
func (w *simWorld) connectionsIdle() bool {
	return len(w.cc.inbox) == 0 && len(w.sc.inbox) == 0 && len(w.cd.lambdas) == 0 && len(w.sd.lambdas) == 0 &&
		len(w.client.sendCh) == 0 && len(w.server.sendCh) == 0
}

// hogAll pops every allocatable slot (used to force socket fallback at a chosen moment); give them back with unhog.
func (w *simWorld) hogAll() (hog []*bufferSlice) {
	for _, l := range w.client.bufferManager.lists {
		for {
			b, err := l.pop()
			if err != nil {
				break
			}
			hog = append(hog, b)
		}
	}
	return
}

func (w *simWorld) unhog(hog []*bufferSlice) {
	for _, b := range hog {
		w.client.bufferManager.recycleBuffer(b)
	}
}

func (w *simWorld) allFree() bool {
	for _, l := range w.client.bufferManager.lists {
		if uint32(*l.size) != *l.cap {
			return false
		}
	}
	return true
}
