// Package vatomic mirrors sync/atomic with scheduling points.
package vatomic

import (
	"sync/atomic"
	"unsafe"

	"github.com/cloudwego/shmipc-go/vsched"
)

type (
	Value = atomic.Value
	Bool = atomic.Bool
	Int32 = atomic.Int32
	Int64 = atomic.Int64
	Uint32 = atomic.Uint32
	Uint64 = atomic.Uint64
)

func LoadInt32(addr *int32) int32 { vsched.Point("atomic.Load"); return atomic.LoadInt32(addr) }
func StoreInt32(addr *int32, v int32) { vsched.Point("atomic.Store"); atomic.StoreInt32(addr, v) }
func AddInt32(addr *int32, d int32) int32 { vsched.Point("atomic.Add"); return atomic.AddInt32(addr, d) }
func SwapInt32(addr *int32, v int32) int32 { vsched.Point("atomic.Swap"); return atomic.SwapInt32(addr, v) }
func CompareAndSwapInt32(addr *int32, o, n int32) bool { vsched.Point("atomic.CAS"); return atomic.CompareAndSwapInt32(addr, o, n) }
func LoadInt64(addr *int64) int64 { vsched.Point("atomic.Load"); return atomic.LoadInt64(addr) }
func StoreInt64(addr *int64, v int64) { vsched.Point("atomic.Store"); atomic.StoreInt64(addr, v) }
func AddInt64(addr *int64, d int64) int64 { vsched.Point("atomic.Add"); return atomic.AddInt64(addr, d) }
func SwapInt64(addr *int64, v int64) int64 { vsched.Point("atomic.Swap"); return atomic.SwapInt64(addr, v) }
func CompareAndSwapInt64(addr *int64, o, n int64) bool { vsched.Point("atomic.CAS"); return atomic.CompareAndSwapInt64(addr, o, n) }
func LoadUint32(addr *uint32) uint32 { vsched.Point("atomic.Load"); return atomic.LoadUint32(addr) }
func StoreUint32(addr *uint32, v uint32) { vsched.Point("atomic.Store"); atomic.StoreUint32(addr, v) }
func AddUint32(addr *uint32, d uint32) uint32 { vsched.Point("atomic.Add"); return atomic.AddUint32(addr, d) }
func SwapUint32(addr *uint32, v uint32) uint32 { vsched.Point("atomic.Swap"); return atomic.SwapUint32(addr, v) }
func CompareAndSwapUint32(addr *uint32, o, n uint32) bool { vsched.Point("atomic.CAS"); return atomic.CompareAndSwapUint32(addr, o, n) }
func LoadUint64(addr *uint64) uint64 { vsched.Point("atomic.Load"); return atomic.LoadUint64(addr) }
func StoreUint64(addr *uint64, v uint64) { vsched.Point("atomic.Store"); atomic.StoreUint64(addr, v) }
func AddUint64(addr *uint64, d uint64) uint64 { vsched.Point("atomic.Add"); return atomic.AddUint64(addr, d) }
func SwapUint64(addr *uint64, v uint64) uint64 { vsched.Point("atomic.Swap"); return atomic.SwapUint64(addr, v) }
func CompareAndSwapUint64(addr *uint64, o, n uint64) bool { vsched.Point("atomic.CAS"); return atomic.CompareAndSwapUint64(addr, o, n) }
func LoadUintptr(addr *uintptr) uintptr { vsched.Point("atomic.Load"); return atomic.LoadUintptr(addr) }
func StoreUintptr(addr *uintptr, v uintptr) { vsched.Point("atomic.Store"); atomic.StoreUintptr(addr, v) }
func AddUintptr(addr *uintptr, d uintptr) uintptr { vsched.Point("atomic.Add"); return atomic.AddUintptr(addr, d) }
func SwapUintptr(addr *uintptr, v uintptr) uintptr { vsched.Point("atomic.Swap"); return atomic.SwapUintptr(addr, v) }
func CompareAndSwapUintptr(addr *uintptr, o, n uintptr) bool { vsched.Point("atomic.CAS"); return atomic.CompareAndSwapUintptr(addr, o, n) }
func LoadPointer(addr *unsafe.Pointer) unsafe.Pointer { vsched.Point("atomic.Load"); return atomic.LoadPointer(addr) }
func StorePointer(addr *unsafe.Pointer, v unsafe.Pointer) { vsched.Point("atomic.Store"); atomic.StorePointer(addr, v) }
func SwapPointer(addr *unsafe.Pointer, v unsafe.Pointer) unsafe.Pointer { vsched.Point("atomic.Swap"); return atomic.SwapPointer(addr, v) }
func CompareAndSwapPointer(addr *unsafe.Pointer, o, n unsafe.Pointer) bool { vsched.Point("atomic.CAS"); return atomic.CompareAndSwapPointer(addr, o, n) }
