module vinstr
go 1.20
