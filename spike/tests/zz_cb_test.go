package shmipc

import (
	"fmt"
	"sync/atomic"
	"testing"
	"time"
)

type cbCount struct {
	bytes  int64
	remote int64
	local  int64
}

func (c *cbCount) OnData(r BufferReader) {
	n := r.Len()
	r.ReadBytes(n)
	r.ReleasePreviousRead()
	atomic.AddInt64(&c.bytes, int64(n))
}
func (c *cbCount) OnLocalClose()  { atomic.AddInt64(&c.local, 1) }
func (c *cbCount) OnRemoteClose() { atomic.AddInt64(&c.remote, 1) }

type lcb struct{ cbs chan *cbCount }

func (l *lcb) OnNewStream(s *Stream) {
	c := &cbCount{}
	s.SetCallbacks(c)
	l.cbs <- c
}
func (l *lcb) OnShutdown(reason string) {}

func TestExpCallbackDataThenClose(t *testing.T) {
	SetLogLevel(levelNoPrint)
	debugMode = true
	conf := testConf()
	conf.LogOutput = nil
	l := &lcb{cbs: make(chan *cbCount, 1000)}
	conf.listenCallback = l
	client, server := testClientServerConfig(conf)
	defer client.Close()
	defer server.Close()
	lost := 0
	N := 300
	for i := 0; i < N; i++ {
		st, _ := client.OpenStream()
		st.BufferWriter().WriteString("hello")
		if err := st.Flush(false); err != nil {
			t.Fatal(err)
		}
		st.Close()
		c := <-l.cbs
		deadline := time.Now().Add(300 * time.Millisecond)
		for atomic.LoadInt64(&c.remote) == 0 && time.Now().Before(deadline) {
			time.Sleep(50 * time.Microsecond)
		}
		time.Sleep(2 * time.Millisecond)
		if atomic.LoadInt64(&c.bytes) != 5 {
			lost++
		}
	}
	fmt.Printf("streams whose 5 bytes were never offered to OnData: %d / %d\n", lost, N)
}
