package shmipc

import (
	"fmt"
	"os"
	"testing"

	"github.com/cloudwego/shmipc-go/vsched"
)

// ---- in-memory control connection ----
type memConn struct {
	name   string
	peer   *memConn
	inbox  []byte // bytes written by peer, not yet delivered to callback
	unread []byte // delivered but unconsumed
	closed bool
	cb     eventConnCallback
	nWrites int
}

func (c *memConn) commitRead(n int)                       { c.unread = c.unread[n:] }
func (c *memConn) setCallback(cb eventConnCallback) error { c.cb = cb; return nil }
func (c *memConn) write(data []byte) error {
	vsched.Point("memConn.write")
	if c.closed {
		return fmt.Errorf("EPIPE")
	}
	c.nWrites++
	c.peer.inbox = append(c.peer.inbox, data...)
	return nil
}
func (c *memConn) writev(data ...[]byte) error {
	for _, d := range data {
		if err := c.write(d); err != nil {
			return err
		}
	}
	return nil
}
func (c *memConn) close() error { c.closed = true; c.peer.closed = true; return nil }

type simDispatcher struct{ lambdas []func() }

func (d *simDispatcher) runLoop() error                        { return nil }
func (d *simDispatcher) newConnection(f *os.File) eventConn   { return nil }
func (d *simDispatcher) shutdown() error                       { return nil }
func (d *simDispatcher) post(f func())                         { d.lambdas = append(d.lambdas, f) }

type simWorld struct {
	client, server *Session
	cc, sc         *memConn
	cd, sd         *simDispatcher
	stop           bool
}

func newSimWorld(pairs []*SizePercentPair, bufCap int, queueCap uint32) *simWorld {
	mem := make([]byte, bufCap)
	cbm, err := createBufferManager(pairs, "sim", mem, 0)
	if err != nil {
		panic(err)
	}
	sbm, err := mappingBufferManager("sim", mem, 0)
	if err != nil {
		panic(err)
	}
	qmem := make([]byte, countQueueMemSize(queueCap)*2)
	half := len(qmem) / 2
	cqm := &queueManager{sendQueue: createQueueFromBytes(qmem[:half], queueCap), recvQueue: createQueueFromBytes(qmem[half:], queueCap), mem: qmem, path: "simq"}
	sqm := &queueManager{sendQueue: mappingQueueFromBytes(qmem[half:]), recvQueue: mappingQueueFromBytes(qmem[:half]), mem: qmem, path: "simq"}
	cc, sc := &memConn{name: "c"}, &memConn{name: "s"}
	cc.peer, sc.peer = sc, cc
	w := &simWorld{cc: cc, sc: sc, cd: &simDispatcher{}, sd: &simDispatcher{}}
	mk := func(isClient bool, bm *bufferManager, qm *queueManager, conn *memConn, d *simDispatcher) *Session {
		conf := DefaultConfig()
		conf.LogOutput = nil
		s := &Session{
			config: conf, dispatcher: d, logger: newSessionLogger(isClient, nil),
			streams: make(map[uint32]*Stream, 16), sendCh: make(chan sendReady, 4096),
			notifyContinueWriteCh: make(chan struct{}, 1), shutdownCh: make(chan struct{}),
			isClient: isClient, communicationVersion: 3, eventConn: conn,
			bufferManager: bm, queueManager: qm, handshakeDone: true,
		}
		if isClient {
			s.nextStreamID = 1
		} else {
			s.nextStreamID = 2
			s.acceptCh = make(chan *Stream, 1024)
		}
		conn.cb = s
		return s
	}
	w.client = mk(true, cbm, cqm, cc, w.cd)
	w.server = mk(false, sbm, sqm, sc, w.sd)
	return w
}

// event loop virtual thread for one side
func (w *simWorld) eventLoop(c *memConn, d *simDispatcher) {
	for !w.stop {
		if len(c.inbox) > 0 {
			c.unread = append(c.unread, c.inbox...)
			c.inbox = c.inbox[:0]
			c.cb.onEventData(c.unread, c)
		} else if len(d.lambdas) > 0 {
			ls := d.lambdas
			d.lambdas = nil
			for _, f := range ls {
				f()
			}
		} else {
			vsched.BlockYield()
		}
	}
}

func TestSpikeSim(t *testing.T) {
	SetLogLevel(levelNoPrint)
	debugMode = true
	seed := uint64(1)
	stuck := 0
	for iter := 0; iter < 300; iter++ {
		w := newSimWorld([]*SizePercentPair{{64, 50}, {256, 50}}, 64*1024, 8)
		sc := vsched.New(func(enabled []int, cur int) int {
			seed = seed*6364136223846793005 + 1442695040888963407
			r := int(seed >> 33)
			if cur >= 0 && r%4 != 0 {
				for _, e := range enabled {
					if e == cur {
						return cur
					}
				}
			}
			return enabled[r%len(enabled)]
		})
		total := 0
		got := 0
		sc.Spawn("cloop", func() { w.eventLoop(w.cc, w.cd) })
		sc.Spawn("sloop", func() { w.eventLoop(w.sc, w.sd) })
		sc.Spawn("csend", w.client.send)
		sc.Spawn("ssend", w.server.send)
		for p := 0; p < 3; p++ {
			sc.Spawn(fmt.Sprintf("prod%d", p), func() {
				st, err := w.client.OpenStream()
				if err != nil {
					panic(err)
				}
				for m := 0; m < 3; m++ {
					st.BufferWriter().WriteString("hello world")
					if err := st.Flush(false); err != nil {
						panic(err)
					}
					total += 11
				}
			})
		}
		sc.Spawn("acceptor", func() {
			for i := 0; i < 3; i++ {
				st, err := w.server.AcceptStream()
				if err != nil {
					return
				}
				vsched.Go(func() {
					for {
						b, err := st.BufferReader().ReadBytes(11)
						if err != nil {
							return
						}
						got += len(b)
						st.BufferReader().ReleasePreviousRead()
					}
				})
			}
		})
		blocked, err := sc.Run(2000000)
		if err != nil {
			t.Fatalf("iter %d: %v", iter, err)
		}
		qsz := w.server.queueManager.recvQueue.size()
		if got != total || qsz != 0 {
			stuck++
			fmt.Printf("iter %d: steps=%d total=%d got=%d recvQueue=%d polling=%d blocked=%v\n", iter, sc.Steps, total, got, qsz, w.cc.nWrites, blocked)
		}
		_ = blocked
	}
	fmt.Println("stuck:", stuck)
}
