package shmipc

import (
	"fmt"
	"testing"

	"github.com/cloudwego/shmipc-go/vsched"
)

type preempt struct{ at, to int }

func runScenario(plan []preempt, nprod, nmsg int) (steps int, ok bool, desc string) {
	w := newSimWorld([]*SizePercentPair{{64, 50}, {256, 50}}, 64*1024, 8)
	step := 0
	sc := vsched.New(func(enabled []int, cur int) int {
		step++
		has := func(id int) bool {
			for _, e := range enabled {
				if e == id {
					return true
				}
			}
			return false
		}
		for _, p := range plan {
			if p.at == step && has(p.to) {
				return p.to
			}
		}
		if cur >= 0 && has(cur) {
			return cur
		}
		return enabled[0]
	})
	total, got := 0, 0
	sc.Spawn("sloop", func() { w.eventLoop(w.sc, w.sd) })
	sc.Spawn("cloop", func() { w.eventLoop(w.cc, w.cd) })
	for p := 0; p < nprod; p++ {
		sc.Spawn(fmt.Sprintf("prod%d", p), func() {
			st, _ := w.client.OpenStream()
			for m := 0; m < nmsg; m++ {
				st.BufferWriter().WriteString("hello world")
				if err := st.Flush(false); err != nil {
					panic(err)
				}
				total += 11
			}
		})
	}
	blocked, err := sc.Run(2000000)
	if err != nil {
		return sc.Steps, false, err.Error()
	}
	// quiescent: count bytes pending on server streams
	for _, st := range w.server.streams {
		st.pendingData.moveTo(st.recvBuf)
		got += st.recvBuf.Len()
	}
	qsz := w.server.queueManager.recvQueue.size()
	if got != total || qsz != 0 {
		return sc.Steps, false, fmt.Sprintf("total=%d got=%d recvQueue=%d blocked=%v", total, got, qsz, blocked)
	}
	return sc.Steps, true, ""
}

func TestSpikeEnum(t *testing.T) {
	SetLogLevel(levelNoPrint)
	debugMode = true
	n, ok, d := runScenario(nil, 1, 2)
	fmt.Println("baseline steps", n, ok, d)
	bad := 0
	runs := 0
	for k := 1; k <= n; k++ {
		for to := 0; to < 3; to++ {
			runs++
			_, ok, d := runScenario([]preempt{{k, to}}, 1, 2)
			if !ok {
				bad++
				if bad <= 3 {
					fmt.Printf("preempt at %d to %d: %s\n", k, to, d)
				}
			}
		}
	}
	fmt.Println("runs", runs, "bad", bad)
}
