package shmipc

import (
	"fmt"
	"testing"

	"github.com/cloudwego/shmipc-go/vsched"
)

func mkList(n, capPer uint32) *bufferList {
	mem := make([]byte, countBufferListMemSize(n, capPer))
	l, err := createFreeBufferList(n, capPer, mem, 0)
	if err != nil {
		panic(err)
	}
	return l
}

func walk(l *bufferList) (n int, ok bool) {
	seen := map[uint32]bool{}
	off := *l.head
	for {
		if seen[off] {
			return n, false
		}
		seen[off] = true
		n++
		bh := bufferHeader(l.bufferRegion[off:])
		if !bh.hasNext() {
			return n, off == *l.tail
		}
		off = bh.nextBufferOffset()
		if off >= uint32(len(l.bufferRegion)) {
			return n, false
		}
	}
}

func TestSpikeABA(t *testing.T) {
	SetLogLevel(levelNoPrint)
	found := 0
	for k := 0; k < 40; k++ {
		l := mkList(4, 8)
		held := map[uint32]int{}
		var viol string
		take := func(who int) *bufferSlice {
			b, err := l.pop()
			if err != nil {
				return nil
			}
			if o, dup := held[b.offsetInShm]; dup {
				viol = fmt.Sprintf("k=%d: slot %d handed to %d while held by %d", k, b.offsetInShm, who, o)
			}
			held[b.offsetInShm] = who
			return b
		}
		give := func(b *bufferSlice) {
			delete(held, b.offsetInShm)
			l.push(b)
		}
		step := 0
		sc := vsched.New(func(enabled []int, cur int) int {
			// thread 0 runs k steps, then thread 1 to completion, then 0
			step++
			has := func(id int) bool {
				for _, e := range enabled {
					if e == id {
						return true
					}
				}
				return false
			}
			if step <= k && has(0) {
				return 0
			}
			if has(1) {
				return 1
			}
			return enabled[0]
		})
		sc.Spawn("A", func() { take(0) })
		sc.Spawn("B", func() {
			a := take(1)
			b := take(1)
			_ = b
			give(a)
			c := take(1)
			give(c)
			d := take(1)
			give(d)
		})
		blocked, err := sc.Run(100000)
		if err != nil || blocked != nil {
			t.Fatalf("run: %v %v", blocked, err)
		}
		n, ok := walk(l)
		if viol != "" || !ok || n+len(held) != 4 {
			found++
			fmt.Printf("k=%d steps=%d viol=%q walk=%d ok=%v held=%d size=%d\n", k, sc.Steps, viol, n, ok, len(held), *l.size)
		}
	}
	fmt.Println("violating schedules:", found)
}
