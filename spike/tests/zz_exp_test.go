package shmipc

import (
	"encoding/binary"
	"fmt"
	"testing"
	"time"
)

func expConf() *Config {
	c := testConf()
	c.LogOutput = nil
	return c
}

func TestExp1ShortFallback(t *testing.T) {
	SetLogLevel(levelNoPrint)
	client, server := testClientServerConfig(expConf())
	defer client.Close()
	defer server.Close()
	for l := 0; l < 17; l++ {
		func() {
			defer func() {
				if r := recover(); r != nil {
					fmt.Printf("len=%d PANIC: %v\n", l, r)
				}
			}()
			buf := make([]byte, 16)
			header(buf).encode(uint32(l), 2, typeFallbackData)
			n, err := server.handleEvents(buf[:maxInt(l, 8)])
			fmt.Printf("len=%d consumed=%d err=%v\n", l, n, err)
		}()
	}
}

func TestExp2WrongDirection(t *testing.T) {
	SetLogLevel(levelNoPrint)
	client, server := testClientServerConfig(expConf())
	defer client.Close()
	defer server.Close()
	for _, typ := range []eventType{typeHotRestartAck, typeHotRestart} {
		for _, s := range []*Session{client, server} {
			func() {
				defer func() {
					if r := recover(); r != nil {
						fmt.Printf("type=%s client=%v PANIC: %v\n", typ, s.isClient, r)
					}
				}()
				buf := make([]byte, 16)
				header(buf).encode(16, 2, typ)
				binary.BigEndian.PutUint64(buf[8:], 7)
				n, err := s.handleEvents(buf)
				fmt.Printf("type=%s client=%v consumed=%d err=%v\n", typ, s.isClient, n, err)
			}()
		}
	}
	time.Sleep(1500 * time.Millisecond) // let posted lambdas run
}

func TestExp3Discard0(t *testing.T) {
	SetLogLevel(levelNoPrint)
	client, server := testClientServerConfig(expConf())
	defer client.Close()
	defer server.Close()
	s, _ := client.OpenStream()
	defer func() {
		if r := recover(); r != nil {
			fmt.Printf("Discard(0) PANIC: %v\n", r)
		}
	}()
	n, err := s.BufferReader().Discard(0)
	fmt.Println("Discard(0)", n, err)
}

type expCb struct {
	s        *Stream
	closeIn  bool
	local    int
	remote   int
	data     int
}

func (c *expCb) OnData(r BufferReader) {
	c.data++
	r.ReadBytes(r.Len())
	if c.closeIn {
		fmt.Println("close in OnData ->", c.s.Close())
	}
}
func (c *expCb) OnLocalClose()  { c.local++ }
func (c *expCb) OnRemoteClose() { c.remote++ }

func TestExp4CloseInOnData(t *testing.T) {
	SetLogLevel(levelNoPrint)
	client, server := testClientServerConfig(expConf())
	defer client.Close()
	defer server.Close()
	cs, _ := client.OpenStream()
	cs.BufferWriter().WriteString("hello")
	cs.Flush(false)
	ss, _ := server.AcceptStream()
	cb := &expCb{s: ss, closeIn: true}
	ss.SetCallbacks(cb)
	// callbacks installed after first data: send another message to trigger
	cs.BufferWriter().WriteString("world")
	cs.Flush(false)
	time.Sleep(300 * time.Millisecond)
	fmt.Printf("server stream state=%d active(server)=%d; client stream state=%d active(client)=%d cb=%+v\n",
		ss.state, server.GetActiveStreamCount(), cs.state, client.GetActiveStreamCount(), *cb)
	cs.SetReadDeadline(time.Now().Add(500 * time.Millisecond))
	_, err := cs.BufferReader().ReadBytes(1)
	fmt.Println("client read after peer close:", err)
}
