package shmipc

import (
	"fmt"
	"testing"

	"github.com/cloudwego/shmipc-go/vsched"
)

// D9 probe: fallback stream closes while consumer is draining for another stream.
func runD9(seed uint64, d int, firstShm bool) (ok bool, desc string) {
	w := newSimWorld([]*SizePercentPair{{64, 50}, {256, 50}}, 16*1024, 8)
	rnd := func() int { seed = seed*6364136223846793005 + 1442695040888963407; return int(seed >> 33) }
	prio := make([]int, 64)
	for i := range prio {
		prio[i] = 1000 + rnd()%1000
	}
	var cps []int
	for i := 0; i < d-1; i++ {
		cps = append(cps, 1+rnd()%1500)
	}
	step := 0
	sc := vsched.New(func(enabled []int, cur int) int {
		step++
		for i, cp := range cps {
			if cp == step && cur >= 0 {
				prio[cur] = i
			}
		}
		best := enabled[0]
		for _, e := range enabled {
			if prio[e] > prio[best] {
				best = e
			}
		}
		return best
	})
	flushed1 := 0
	got1 := 0
	eof1 := false
	var gotBytes []byte
	var readerErr error
	sc.Spawn("sloop", func() { w.eventLoop(w.sc, w.sd) })
	sc.Spawn("cloop", func() { w.eventLoop(w.cc, w.cd) })
	sc.Spawn("csend", w.client.send)
	s1, _ := w.client.OpenStream()
	s2, _ := w.client.OpenStream()
	sc.Spawn("w1", func() {
		if firstShm {
			s1.BufferWriter().WriteString("0123456789")
			if err := s1.Flush(false); err != nil {
				panic(err)
			}
			flushed1 += 10
		}
		// hog everything -> fallback
		var hog []*bufferSlice
		for _, l := range w.client.bufferManager.lists {
			for {
				b, err := l.pop()
				if err != nil {
					break
				}
				hog = append(hog, b)
			}
		}
		s1.BufferWriter().WriteString("abcdefghij")
		for _, b := range hog {
			w.client.bufferManager.recycleBuffer(b)
		}
		if err := s1.Flush(false); err != nil {
			panic(err)
		}
		flushed1 += 10
		// no close: D10 probe
	})
	sc.Spawn("w2", func() {
		for i := 0; i < 2; i++ {
			s2.BufferWriter().WriteString("x")
			s2.Flush(false)
		}
	})
	sc.Spawn("acceptor", func() {
		for i := 0; i < 2; i++ {
			st, err := w.server.AcceptStream()
			if err != nil {
				return
			}
			if st.id != s1.id {
				continue
			}
			vsched.Go(func() {
				for {
					bb, err := st.BufferReader().ReadByte()
					if err == nil { gotBytes = append(gotBytes, bb) }
					if err != nil {
						readerErr = err
						eof1 = true
						return
					}
					got1++
				}
			})
		}
	})
	blocked, err := sc.Run(3000000)
	if err != nil {
		return false, "ERR " + err.Error()
	}
	want := "0123456789abcdefghij"
	if !firstShm { want = "abcdefghij" }
	if len(gotBytes) <= len(want) && string(gotBytes) != want[:len(gotBytes)] {
		return false, "REORDER got=" + string(gotBytes)
	}
	if got1 != flushed1 {
		return false, fmt.Sprintf("flushed=%d got=%d eof=%v err=%v blocked=%v", flushed1, got1, eof1, readerErr, blocked)
	}
	return true, ""
}

func TestSpikeD9(t *testing.T) {
	SetLogLevel(levelNoPrint)
	debugMode = true
	for _, first := range []bool{true} {
		kinds := map[string]int{}
		bad := 0
		for i := 0; i < 600; i++ {
			ok, d := runD9(uint64(i)*104729+7, 3, first)
			if !ok {
				bad++
				if len(d) > 60 { d = d[:60] }
				kinds[d]++
			}
		}
		fmt.Printf("firstShm=%v bad=%d/600\n", first, bad)
		for k, v := range kinds {
			fmt.Printf("   %5d  %s\n", v, k)
		}
	}
}
