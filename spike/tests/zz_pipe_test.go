package shmipc

import (
	"bytes"
	"fmt"
	"testing"
	"time"

	"pgregory.net/rapid"
)

var pipeClient, pipeServer *Session
var pinLeak = false

func pipeSessions() (*Session, *Session) {
	if pipeClient == nil || pipeClient.IsClosed() || pipeServer.IsClosed() {
		SetLogLevel(levelNoPrint)
		debugMode = true
		c := testConf()
		c.LogOutput = nil
		c.ShareMemoryBufferCap = 1 << 20
		c.BufferSliceSizes = []*SizePercentPair{{64, 1}, {256, 1}, {1024, 2}, {65536, 96}}
		pipeClient, pipeServer = testClientServerConfig(c)
	}
	return pipeClient, pipeServer
}

func keyed(stream uint32, i int) byte { return byte(uint32(i)*2654435761>>24) ^ byte(stream*31) ^ byte(i) }

func TestPipeProto(t *testing.T) {
	sizes := rapid.OneOf(rapid.IntRange(0, 5), rapid.IntRange(60, 70), rapid.IntRange(250, 260), rapid.IntRange(1020, 1030), rapid.IntRange(1, 3000), rapid.IntRange(3000, 9000))
	rapid.Check(t, func(t *rapid.T) {
		client, server := pipeSessions()
		free0 := client.bufferManager.sliceSize()
		w, err := client.OpenStream()
		if err != nil {
			t.Fatalf("open: %v", err)
		}
		var r *Stream
		var hog []*bufferSlice
		written := 0  // bytes written into sendBuf (model positions)
		flushed := 0
		consumed := 0
		wb := w.BufferWriter()
		ensureReader := func() {
			if r == nil && flushed > 0 {
				r, err = server.AcceptStream()
				if err != nil {
					t.Fatalf("accept: %v", err)
				}
				r.SetReadDeadline(time.Now().Add(5 * time.Second))
			}
		}
		gen := func(n int) []byte {
			b := make([]byte, n)
			for i := range b {
				b[i] = keyed(1, written+i)
			}
			return b
		}
		check := func(op string, got []byte, n int) {
			for i := 0; i < n; i++ {
				if got[i] != keyed(1, consumed+i) {
					t.Fatalf("%s: byte %d (pos %d) got %d want %d", op, i, consumed+i, got[i], keyed(1, consumed+i))
				}
			}
		}
		t.Repeat(map[string]func(*rapid.T){
			"WriteBytes": func(t *rapid.T) {
				n := sizes.Draw(t, "n")
				d := gen(n)
				m, err := wb.WriteBytes(d)
				if err != nil || m != n {
					t.Fatalf("WriteBytes(%d)=%d,%v", n, m, err)
				}
				written += n
			},
			"Reserve": func(t *rapid.T) {
				n := sizes.Draw(t, "n")
				if n == 0 { n = 1 }
				d := gen(n)
				buf, err := wb.Reserve(n)
				if err != nil || len(buf) != n {
					t.Fatalf("Reserve(%d)=%d,%v", n, len(buf), err)
				}
				copy(buf, d)
				written += n
			},
			"WriteByte": func(t *rapid.T) {
				d := gen(1)
				if err := wb.WriteByte(d[0]); err != nil {
					t.Fatalf("WriteByte %v", err)
				}
				written++
			},
			"WriteString": func(t *rapid.T) {
				n := sizes.Draw(t, "n")
				d := gen(n)
				if err := wb.WriteString(string(d)); err != nil {
					t.Fatalf("WriteString %v", err)
				}
				written += n
			},
			"Flush": func(t *rapid.T) {
				if wb.Len() != written-flushed {
					t.Fatalf("writer Len %d want %d", wb.Len(), written-flushed)
				}
				if err := w.Flush(false); err != nil {
					t.Fatalf("Flush %v", err)
				}
				flushed = written
			},
			"ReadBytes": func(t *rapid.T) {
				ensureReader()
				avail := flushed - consumed
				if avail == 0 {
					t.Skip()
				}
				n := rapid.IntRange(1, avail).Draw(t, "n")
				got, err := r.BufferReader().ReadBytes(n)
				if err != nil || len(got) != n {
					t.Fatalf("ReadBytes(%d)=%d,%v", n, len(got), err)
				}
				check("ReadBytes", got, n)
				consumed += n
			},
			"Peek": func(t *rapid.T) {
				ensureReader()
				avail := flushed - consumed
				if avail == 0 {
					t.Skip()
				}
				n := rapid.IntRange(1, avail).Draw(t, "n")
				got, err := r.BufferReader().Peek(n)
				if err != nil || len(got) != n {
					t.Fatalf("Peek(%d)=%d,%v", n, len(got), err)
				}
				check("Peek", got, n)
			},
			"PeekAllLen": func(t *rapid.T) {
				ensureReader()
				avail := flushed - consumed
				if avail == 0 {
					t.Skip()
				}
				got, err := r.BufferReader().Peek(avail)
				if err != nil || len(got) != avail {
					t.Fatalf("Peek(%d)=%d,%v", avail, len(got), err)
				}
				check("PeekAll", got, avail)
				if l := r.BufferReader().Len(); l != avail {
					t.Fatalf("Len %d want %d", l, avail)
				}
			},
			"Discard": func(t *rapid.T) {
				ensureReader()
				avail := flushed - consumed
				if avail == 0 {
					t.Skip()
				}
				n := rapid.IntRange(1, avail).Draw(t, "n")
				m, err := r.BufferReader().Discard(n)
				if err != nil || m != n {
					t.Fatalf("Discard(%d)=%d,%v", n, m, err)
				}
				consumed += n
			},
			"ReadByte": func(t *rapid.T) {
				ensureReader()
				if flushed-consumed == 0 {
					t.Skip()
				}
				b, err := r.BufferReader().ReadByte()
				if err != nil {
					t.Fatalf("ReadByte %v", err)
				}
				check("ReadByte", []byte{b}, 1)
				consumed++
			},
			"ReadString": func(t *rapid.T) {
				ensureReader()
				avail := flushed - consumed
				if avail == 0 {
					t.Skip()
				}
				n := rapid.IntRange(1, avail).Draw(t, "n")
				s, err := r.BufferReader().ReadString(n)
				if err != nil || len(s) != n {
					t.Fatalf("ReadString(%d)=%d,%v", n, len(s), err)
				}
				check("ReadString", []byte(s), n)
				consumed += n
			},
			"Read": func(t *rapid.T) {
				ensureReader()
				avail := flushed - consumed
				if avail == 0 {
					t.Skip()
				}
				n := sizes.Draw(t, "n")
				if n == 0 {
					n = 1
				}
				p := make([]byte, n)
				m, err := r.Read(p)
				if err != nil || m < 1 || m > n || m > avail {
					t.Fatalf("Read(%d)=%d,%v avail=%d", n, m, err, avail)
				}
				check("Read", p, m)
				consumed += m
			},
			"Hog": func(t *rapid.T) {
				for li, l := range client.bufferManager.lists {
					keep := rapid.IntRange(0, 4).Draw(t, fmt.Sprintf("keep%d", li))
					for l.remain() > keep {
						b, err := l.pop()
						if err != nil { break }
						hog = append(hog, b)
					}
				}
			},
			"Unhog": func(t *rapid.T) {
				for _, b := range hog { client.bufferManager.recycleBuffer(b) }
				hog = nil
			},
			"ReleaseReuse": func(t *rapid.T) {
				if r == nil { t.Skip() }
				r.ReleaseReadAndReuse()
			},
			"Release": func(t *rapid.T) {
				if r == nil {
					t.Skip()
				}
				r.BufferReader().ReleasePreviousRead()
			},
			"": func(t *rapid.T) {
				if r != nil {
					if l := r.BufferReader().Len(); l > flushed-consumed || l < 0 {
						t.Fatalf("reader Len %d > outstanding %d", l, flushed-consumed)
					}
				}
			},
		})
		for _, b := range hog { client.bufferManager.recycleBuffer(b) }
		hog = nil
		// drain and close
		ensureReader()
		if r != nil {
			avail := flushed - consumed
			if avail > 0 {
				got, err := r.BufferReader().ReadBytes(avail)
				if err != nil {
					t.Fatalf("final read: %v", err)
				}
				check("final", got, avail)
				consumed += avail
			}
			if !pinLeak { r.BufferReader().ReleasePreviousRead() }
			r.Close()
		}
		if r != nil { for w.IsOpen() { time.Sleep(50*time.Microsecond) } }
		w.Close()
		deadline := time.Now().Add(2 * time.Second)
		for client.bufferManager.sliceSize() != free0 || client.GetActiveStreamCount() != 0 || server.GetActiveStreamCount() != 0 {
			if time.Now().After(deadline) {
				t.Fatalf("leak: free %d want %d, active c=%d s=%d", client.bufferManager.sliceSize(), free0, client.GetActiveStreamCount(), server.GetActiveStreamCount())
			}
			time.Sleep(100 * time.Microsecond)
		}
	})
	_ = bytes.Equal
	_ = fmt.Sprint
}
