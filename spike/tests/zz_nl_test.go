package shmipc

import (
	"fmt"
	"net"
	"os"
	"testing"
	"time"
)

func TestExpNetListener(t *testing.T) {
	SetLogLevel(levelNoPrint)
	debugMode = true
	path := fmt.Sprintf("/tmp/vx_nl_%d.sock", os.Getpid())
	os.Remove(path)
	ln, err := Listen(path)
	if err != nil {
		t.Fatal(err)
	}
	go func() {
		for {
			c, err := ln.Accept()
			if err != nil {
				fmt.Println("accept err:", err)
				return
			}
			go func() {
				buf := make([]byte, 100)
				for {
					n, err := c.Read(buf)
					if err != nil {
						fmt.Println("server read err:", err)
						c.Close()
						return
					}
					c.Write(buf[:n])
				}
			}()
		}
	}()
	conn, err := net.Dial("unix", path)
	if err != nil {
		t.Fatal(err)
	}
	conf := testConf()
	conf.LogOutput = nil
	cs, err := newSession(conf, conn, true)
	if err != nil {
		t.Fatal(err)
	}
	st, _ := cs.OpenStream()
	n, err := st.Write([]byte("hello"))
	fmt.Println("write", n, err)
	buf := make([]byte, 10)
	st.SetReadDeadline(time.Now().Add(2 * time.Second))
	n, err = st.Read(buf)
	fmt.Println("read", n, err, string(buf[:n]))
	st.Close()
	time.Sleep(100 * time.Millisecond)
	l := ln.(*listener)
	l.mu.Lock()
	nsess := len(l.sessions)
	l.mu.Unlock()
	fmt.Println("sessions before close:", nsess)
	ln.Close()
	select {
	case <-cs.CloseChan():
		fmt.Println("client session closed after listener close")
	case <-time.After(3 * time.Second):
		fmt.Println("client session NOT closed 3s after listener close")
	}
	cs.Close()
}
