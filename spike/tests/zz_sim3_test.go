package shmipc

import (
	"fmt"
	"testing"

	"github.com/cloudwego/shmipc-go/vsched"
)

func runPCT(seed uint64, nprod, nmsg, d, kmax int) (steps int, ok bool, desc string) {
	w := newSimWorld([]*SizePercentPair{{64, 50}, {256, 50}}, 64*1024, 8)
	rnd := func() int { seed = seed*6364136223846793005 + 1442695040888963407; return int(seed >> 33) }
	nth := 2 + nprod
	prio := make([]int, 64)
	for i := range prio {
		prio[i] = 1000 + rnd()%1000
	}
	var cps []int
	for i := 0; i < d-1; i++ {
		cps = append(cps, 1+rnd()%kmax)
	}
	_ = nth
	step := 0
	sc := vsched.New(func(enabled []int, cur int) int {
		step++
		for i, cp := range cps {
			if cp == step && cur >= 0 {
				prio[cur] = i // lowest
			}
		}
		best := enabled[0]
		for _, e := range enabled {
			if prio[e] > prio[best] {
				best = e
			}
		}
		return best
	})
	total, got := 0, 0
	sc.Spawn("sloop", func() { w.eventLoop(w.sc, w.sd) })
	sc.Spawn("cloop", func() { w.eventLoop(w.cc, w.cd) })
	for p := 0; p < nprod; p++ {
		sc.Spawn(fmt.Sprintf("prod%d", p), func() {
			st, _ := w.client.OpenStream()
			for m := 0; m < nmsg; m++ {
				st.BufferWriter().WriteString("hello world")
				if err := st.Flush(false); err != nil {
					panic(err)
				}
				total += 11
			}
		})
	}
	blocked, err := sc.Run(2000000)
	if err != nil {
		return sc.Steps, false, err.Error()
	}
	for _, st := range w.server.streams {
		st.pendingData.moveTo(st.recvBuf)
		got += st.recvBuf.Len()
	}
	qsz := w.server.queueManager.recvQueue.size()
	if got != total || qsz != 0 {
		return sc.Steps, false, fmt.Sprintf("total=%d got=%d recvQueue=%d blocked=%v", total, got, qsz, blocked)
	}
	return sc.Steps, true, ""
}

func TestSpikePCT(t *testing.T) {
	SetLogLevel(levelNoPrint)
	debugMode = true
	for _, cfg := range [][3]int{{1, 2, 2}, {2, 2, 2}, {2, 3, 3}} {
		bad, first := 0, -1
		for i := 0; i < 3000; i++ {
			_, ok, _ := runPCT(uint64(i)*7919+1, cfg[0], cfg[1], cfg[2], 500*cfg[0])
			if !ok {
				bad++
				if first < 0 {
					first = i
				}
			}
		}
		fmt.Printf("nprod=%d nmsg=%d d=%d: bad=%d/3000 first=%d\n", cfg[0], cfg[1], cfg[2], bad, first)
	}
}
