// Package vatomic mirrors sync/atomic with a scheduling point before every operation, and tracks per-address
// versions for watched addresses so that an ABA-style successful CAS can be recognised (DESIGN.md section 4, D1).
package vatomic

import (
	"sync/atomic"
	"unsafe"

	"github.com/cloudwego/shmipc-go/vsched"
)

type (
	Value  = atomic.Value
	Bool   = atomic.Bool
	Int32  = atomic.Int32
	Int64  = atomic.Int64
	Uint32 = atomic.Uint32
	Uint64 = atomic.Uint64
)

type watchInfo struct {
	version uint64
	seen    map[int]uint64
}

var (
	watch = map[unsafe.Pointer]*watchInfo{}
	// ABAEvents counts successful CASes on a watched address whose version changed since the thread last loaded it.
	ABAEvents int
	ABALast   string
)

// Watch registers an address for ABA tracking (only consulted during controlled runs, single running thread).
func Watch(p unsafe.Pointer) { watch[p] = &watchInfo{seen: map[int]uint64{}} }

// ResetWatch forgets all watched addresses and events.
func ResetWatch() {
	watch = map[unsafe.Pointer]*watchInfo{}
	ABAEvents = 0
	ABALast = ""
}

func onLoad(p unsafe.Pointer) {
	if len(watch) == 0 {
		return
	}
	if w := watch[p]; w != nil {
		w.seen[vsched.CurrentID()] = w.version
	}
}

func onWrite(p unsafe.Pointer) {
	if len(watch) == 0 {
		return
	}
	if w := watch[p]; w != nil {
		w.version++
	}
}

func onCAS(p unsafe.Pointer, ok bool) {
	if len(watch) == 0 || !ok {
		return
	}
	if w := watch[p]; w != nil {
		tid := vsched.CurrentID()
		if s, has := w.seen[tid]; has && s != w.version {
			ABAEvents++
			if sc := vsched.Current(); sc != nil {
				ABALast = sc.ThreadName(tid) + "@" + sc.LastPoint(tid)
			}
		}
		w.version++
	}
}

func LoadInt32(addr *int32) int32 {
	vsched.Point("atomic.Load")
	onLoad(unsafe.Pointer(addr))
	return atomic.LoadInt32(addr)
}
func StoreInt32(addr *int32, v int32) {
	vsched.Point("atomic.Store")
	onWrite(unsafe.Pointer(addr))
	atomic.StoreInt32(addr, v)
}
func AddInt32(addr *int32, d int32) int32 {
	vsched.Point("atomic.Add")
	onWrite(unsafe.Pointer(addr))
	return atomic.AddInt32(addr, d)
}
func SwapInt32(addr *int32, v int32) int32 {
	vsched.Point("atomic.Swap")
	onWrite(unsafe.Pointer(addr))
	return atomic.SwapInt32(addr, v)
}
func CompareAndSwapInt32(addr *int32, o, n int32) bool {
	vsched.Point("atomic.CAS")
	ok := atomic.CompareAndSwapInt32(addr, o, n)
	onCAS(unsafe.Pointer(addr), ok)
	return ok
}
func LoadInt64(addr *int64) int64 {
	vsched.Point("atomic.Load")
	onLoad(unsafe.Pointer(addr))
	return atomic.LoadInt64(addr)
}
func StoreInt64(addr *int64, v int64) {
	vsched.Point("atomic.Store")
	onWrite(unsafe.Pointer(addr))
	atomic.StoreInt64(addr, v)
}
func AddInt64(addr *int64, d int64) int64 {
	vsched.Point("atomic.Add")
	onWrite(unsafe.Pointer(addr))
	return atomic.AddInt64(addr, d)
}
func SwapInt64(addr *int64, v int64) int64 {
	vsched.Point("atomic.Swap")
	onWrite(unsafe.Pointer(addr))
	return atomic.SwapInt64(addr, v)
}
func CompareAndSwapInt64(addr *int64, o, n int64) bool {
	vsched.Point("atomic.CAS")
	ok := atomic.CompareAndSwapInt64(addr, o, n)
	onCAS(unsafe.Pointer(addr), ok)
	return ok
}
func LoadUint32(addr *uint32) uint32 {
	vsched.Point("atomic.Load")
	onLoad(unsafe.Pointer(addr))
	return atomic.LoadUint32(addr)
}
func StoreUint32(addr *uint32, v uint32) {
	vsched.Point("atomic.Store")
	onWrite(unsafe.Pointer(addr))
	atomic.StoreUint32(addr, v)
}
func AddUint32(addr *uint32, d uint32) uint32 {
	vsched.Point("atomic.Add")
	onWrite(unsafe.Pointer(addr))
	return atomic.AddUint32(addr, d)
}
func SwapUint32(addr *uint32, v uint32) uint32 {
	vsched.Point("atomic.Swap")
	onWrite(unsafe.Pointer(addr))
	return atomic.SwapUint32(addr, v)
}
func CompareAndSwapUint32(addr *uint32, o, n uint32) bool {
	vsched.Point("atomic.CAS")
	ok := atomic.CompareAndSwapUint32(addr, o, n)
	onCAS(unsafe.Pointer(addr), ok)
	return ok
}
func LoadUint64(addr *uint64) uint64 {
	vsched.Point("atomic.Load")
	onLoad(unsafe.Pointer(addr))
	return atomic.LoadUint64(addr)
}
func StoreUint64(addr *uint64, v uint64) {
	vsched.Point("atomic.Store")
	onWrite(unsafe.Pointer(addr))
	atomic.StoreUint64(addr, v)
}
func AddUint64(addr *uint64, d uint64) uint64 {
	vsched.Point("atomic.Add")
	onWrite(unsafe.Pointer(addr))
	return atomic.AddUint64(addr, d)
}
func SwapUint64(addr *uint64, v uint64) uint64 {
	vsched.Point("atomic.Swap")
	onWrite(unsafe.Pointer(addr))
	return atomic.SwapUint64(addr, v)
}
func CompareAndSwapUint64(addr *uint64, o, n uint64) bool {
	vsched.Point("atomic.CAS")
	ok := atomic.CompareAndSwapUint64(addr, o, n)
	onCAS(unsafe.Pointer(addr), ok)
	return ok
}
func LoadUintptr(addr *uintptr) uintptr {
	vsched.Point("atomic.Load")
	return atomic.LoadUintptr(addr)
}
func StoreUintptr(addr *uintptr, v uintptr) {
	vsched.Point("atomic.Store")
	atomic.StoreUintptr(addr, v)
}
func AddUintptr(addr *uintptr, d uintptr) uintptr {
	vsched.Point("atomic.Add")
	return atomic.AddUintptr(addr, d)
}
func SwapUintptr(addr *uintptr, v uintptr) uintptr {
	vsched.Point("atomic.Swap")
	return atomic.SwapUintptr(addr, v)
}
func CompareAndSwapUintptr(addr *uintptr, o, n uintptr) bool {
	vsched.Point("atomic.CAS")
	return atomic.CompareAndSwapUintptr(addr, o, n)
}
func LoadPointer(addr *unsafe.Pointer) unsafe.Pointer {
	vsched.Point("atomic.Load")
	return atomic.LoadPointer(addr)
}
func StorePointer(addr *unsafe.Pointer, v unsafe.Pointer) {
	vsched.Point("atomic.Store")
	atomic.StorePointer(addr, v)
}
func SwapPointer(addr *unsafe.Pointer, v unsafe.Pointer) unsafe.Pointer {
	vsched.Point("atomic.Swap")
	return atomic.SwapPointer(addr, v)
}
func CompareAndSwapPointer(addr *unsafe.Pointer, o, n unsafe.Pointer) bool {
	vsched.Point("atomic.CAS")
	return atomic.CompareAndSwapPointer(addr, o, n)
}
