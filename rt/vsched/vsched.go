// Package vsched: controlled cooperative scheduler (spike).
package vsched

import (
	"fmt"
	"sync/atomic"
	"time"
)

type thread struct {
	id       int
	name     string
	resume   chan struct{}
	finished bool
	waitGen  int64 // blocked until progress > waitGen ; -1 = not waiting
	lastPt   string
	panicVal interface{}
}

type killSentinel struct{}

type Sched struct {
	killing bool
	threads  []*thread
	cur      *thread
	yielded  chan *thread
	progress int64
	Trace    []string
	Steps    int
	pick     func(enabled []int, cur int) int
	KeepTrace bool
}

var active atomic.Pointer[Sched]

// Controlled reports whether a controlled run is active.
func Controlled() bool { return active.Load() != nil }

func New(pick func(enabled []int, cur int) int) *Sched {
	return &Sched{yielded: make(chan *thread), pick: pick}
}

// Go registers a new virtual thread (or plain goroutine when uncontrolled).
func Go(f func()) {
	s := active.Load()
	if s == nil {
		go f()
		return
	}
	s.spawn("go", f)
}

func (s *Sched) Spawn(name string, f func()) { s.spawn(name, f) }

func (s *Sched) spawn(name string, f func()) {
	t := &thread{id: len(s.threads), name: name, resume: make(chan struct{}), waitGen: -1}
	s.threads = append(s.threads, t)
	go func() {
		<-t.resume
		defer func() {
			if r := recover(); r != nil {
				if _, ok := r.(killSentinel); !ok {
					t.panicVal = r
				}
			}
			t.finished = true
			s.progress++
			s.yielded <- t
		}()
		f()
	}()
}

// Run executes until all threads finished or all are blocked (quiescent). Returns blocked thread names.
func (s *Sched) Run(maxSteps int) (blocked []string, err error) {
	active.Store(s)
	defer active.Store(nil)
	defer s.killAll()
	idle := 0
	for {
		var enabled []int
		alive := 0
		for _, t := range s.threads {
			if t.finished {
				continue
			}
			alive++
			if t.waitGen < 0 || s.progress > t.waitGen {
				enabled = append(enabled, t.id)
			}
		}
		if alive == 0 {
			return nil, nil
		}
		if len(enabled) == 0 {
			// grace for real timers
			if idle < 0 {
				idle++
				time.Sleep(time.Millisecond)
				s.progress++
				continue
			}
			for _, t := range s.threads {
				if !t.finished {
					blocked = append(blocked, fmt.Sprintf("%s@%s", t.name, t.lastPt))
				}
			}
			return blocked, nil
		}
		curID := -1
		if s.cur != nil && !s.cur.finished {
			curID = s.cur.id
		}
		id := s.pick(enabled, curID)
		t := s.threads[id]
		s.cur = t
		s.Steps++
		if s.Steps > maxSteps {
			return nil, fmt.Errorf("step budget exceeded")
		}
		t.resume <- struct{}{}
		y := <-s.yielded
		if y.panicVal != nil {
			return nil, fmt.Errorf("panic in %s at %s: %v", y.name, y.lastPt, y.panicVal)
		}
		if y.waitGen < 0 {
			idle = 0
		}
	}
}

func (s *Sched) yield(pt string, blocking bool) {
	t := s.cur
	t.lastPt = pt
	if blocking {
		t.waitGen = s.progress
	} else {
		t.waitGen = -1
		s.progress++
	}
	if s.KeepTrace {
		s.Trace = append(s.Trace, fmt.Sprintf("%d:%s", t.id, pt))
	}
	s.yielded <- t
	<-t.resume
	if s.killing {
		panic(killSentinel{})
	}
}

// Point is a scheduling point inserted before every statement of instrumented code.
func Point(id string) {
	if s := active.Load(); s != nil {
		s.yield(id, false)
	}
}

func Gosched() { Point("gosched") }

// BlockYield: the caller could not make progress; disabled until someone else progresses.
func BlockYield() {
	if s := active.Load(); s != nil {
		s.yield(s.cur.lastPt, true)
		return
	}
	time.Sleep(20 * time.Microsecond)
}

func Send[T any](ch chan<- T, v T) {
	if active.Load() == nil {
		ch <- v
		return
	}
	for {
		select {
		case ch <- v:
			return
		default:
			BlockYield()
		}
	}
}

func Recv[T any](ch <-chan T) T {
	if active.Load() == nil {
		return <-ch
	}
	for {
		select {
		case v := <-ch:
			return v
		default:
			BlockYield()
		}
	}
}

func Recv2[T any](ch <-chan T) (T, bool) {
	if active.Load() == nil {
		v, ok := <-ch
		return v, ok
	}
	for {
		select {
		case v, ok := <-ch:
			return v, ok
		default:
			BlockYield()
		}
	}
}

func (s *Sched) killAll() {
	s.killing = true
	for _, t := range s.threads {
		for !t.finished {
			s.cur = t
			t.resume <- struct{}{}
			<-s.yielded
		}
	}
}
