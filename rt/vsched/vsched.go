// Package vsched is the cooperative scheduler of engine E1 (DESIGN.md 3.1): virtual threads are goroutines of
// which exactly one runs at a time; every scheduling point inserted by vinstr hands control back to the
// scheduler, which asks a picker (driven by a generated schedule) whom to run next.
//
// Outside a controlled run every primitive degrades to the plain operation.
package vsched

import (
	"fmt"
	"runtime/debug"
	"strings"
	"sync/atomic"
	"time"
)

type thread struct {
	id       int
	name     string
	resume   chan struct{}
	finished bool
	waitGen  int64 // blocked until progress > waitGen ; -1 = runnable
	waitQ    bool  // blocked until the rest of the system is quiescent
	lastPt   string
	panicVal interface{}
	stack    string
}

type killSentinel struct{}

// Picker chooses the next thread among the enabled ones. cur is the thread that ran last (-1 if it finished
// or is blocked), step counts scheduling decisions from 1.
type Picker func(enabled []int, cur int, step int) int

type Sched struct {
	killing  bool
	threads  []*thread
	cur      *thread
	yielded  chan *thread
	progress int64
	Steps    int
	pick     Picker
	noYield  int
	// Grace: when every live thread is blocked, keep re-polling them for this long before declaring quiescence
	// (needed only by scenarios that rely on real timers).
	Grace time.Duration
	// ring of the last scheduling points, for failure reports
	ring    [64]traceEnt
	ringPos int
	// OnSpawn is called (without yielding) when a thread is created through Go
	OnSpawn func(id int, name string)
}

type traceEnt struct {
	tid int
	pt  string
}

var active atomic.Pointer[Sched]

// Controlled reports whether a controlled run is active.
func Controlled() bool { return active.Load() != nil }

// Current returns the active scheduler or nil.
func Current() *Sched { return active.Load() }

// CurrentID is the id of the running virtual thread (-1 outside a controlled run).
func CurrentID() int {
	if s := active.Load(); s != nil && s.cur != nil {
		return s.cur.id
	}
	return -1
}

func New(pick Picker) *Sched {
	return &Sched{yielded: make(chan *thread), pick: pick}
}

// Go starts f as a new virtual thread (or a plain goroutine when uncontrolled).
func Go(f func()) {
	s := active.Load()
	if s == nil {
		go f()
		return
	}
	id := s.spawn("go", f)
	if s.OnSpawn != nil {
		s.OnSpawn(id, "go")
	}
}

// Spawn registers a named thread before or during Run.
func (s *Sched) Spawn(name string, f func()) int { return s.spawn(name, f) }

func (s *Sched) NumThreads() int { return len(s.threads) }

func (s *Sched) ThreadName(id int) string { return s.threads[id].name }

func (s *Sched) spawn(name string, f func()) int {
	t := &thread{id: len(s.threads), name: name, resume: make(chan struct{}), waitGen: -1}
	s.threads = append(s.threads, t)
	go func() {
		<-t.resume
		defer func() {
			if r := recover(); r != nil {
				if _, ok := r.(killSentinel); !ok {
					t.panicVal = r
					t.stack = stackOf()
				}
			}
			t.finished = true
			s.progress++
			s.yielded <- t
		}()
		if s.killing {
			panic(killSentinel{})
		}
		f()
	}()
	return t.id
}

// Result of a controlled run.
type Result struct {
	Done      bool     // every thread finished
	Blocked   []string // quiescent: these threads are blocked ("name@point")
	BlockedID []int
	Err       string // step budget exceeded or a panic on a virtual thread
	Panic     bool
}

// Run executes until all threads finished, or all are blocked (quiescent), or the budget is exhausted.
// Unfinished threads are unwound afterwards.
func (s *Sched) Run(maxSteps int) (res Result) {
	active.Store(s)
	defer active.Store(nil)
	defer s.killAll()
	var graceStart time.Time
	inGrace := false
	enabled := make([]int, 0, 16)
	for {
		enabled = enabled[:0]
		alive := 0
		for _, t := range s.threads {
			if t.finished {
				continue
			}
			alive++
			if t.waitGen < 0 || s.progress > t.waitGen {
				enabled = append(enabled, t.id)
			}
		}
		if alive == 0 {
			res.Done = true
			return
		}
		if len(enabled) == 0 {
			// threads waiting for quiescence get their turn now (all of them: they race under the schedule)
			woke := false
			for _, t := range s.threads {
				if !t.finished && t.waitQ {
					t.waitQ = false
					t.waitGen = -1
					woke = true
				}
			}
			if woke {
				continue
			}
			if s.Grace > 0 {
				if !inGrace {
					inGrace = true
					graceStart = time.Now()
				}
				if time.Since(graceStart) < s.Grace {
					time.Sleep(200 * time.Microsecond)
					s.progress++
					continue
				}
			}
			for _, t := range s.threads {
				if !t.finished {
					res.Blocked = append(res.Blocked, t.name+"@"+t.lastPt)
					res.BlockedID = append(res.BlockedID, t.id)
				}
			}
			return
		}
		curID := -1
		if s.cur != nil && !s.cur.finished && (s.cur.waitGen < 0) {
			curID = s.cur.id
		}
		s.Steps++
		if s.Steps > maxSteps {
			res.Err = fmt.Sprintf("step budget %d exceeded", maxSteps)
			return
		}
		id := s.pick(enabled, curID, s.Steps)
		t := s.threads[id]
		s.cur = t
		t.resume <- struct{}{}
		y := <-s.yielded
		if y.panicVal != nil {
			res.Err = fmt.Sprintf("panic on virtual thread %q at %s: %v\n%s", y.name, y.lastPt, y.panicVal, y.stack)
			res.Panic = true
			return
		}
		if y.waitGen < 0 {
			inGrace = false
		}
	}
}

func (s *Sched) yield(pt string, blocking bool) {
	t := s.cur
	t.lastPt = pt
	if blocking {
		t.waitGen = s.progress
	} else {
		t.waitGen = -1
		s.progress++
	}
	s.ring[s.ringPos%len(s.ring)] = traceEnt{t.id, pt}
	s.ringPos++
	s.yielded <- t
	<-t.resume
	if s.killing {
		panic(killSentinel{})
	}
}

// Tail returns the last scheduling points (oldest first) as "thread:point".
func (s *Sched) Tail(n int) []string {
	var out []string
	start := s.ringPos - n
	if start < 0 {
		start = 0
	}
	if s.ringPos-start > len(s.ring) {
		start = s.ringPos - len(s.ring)
	}
	for i := start; i < s.ringPos; i++ {
		e := s.ring[i%len(s.ring)]
		out = append(out, fmt.Sprintf("%s:%s", s.threads[e.tid].name, e.pt))
	}
	return out
}

// LastPoint is the point at which thread id yielded last.
func (s *Sched) LastPoint(id int) string { return s.threads[id].lastPt }

// Point is a scheduling point; vinstr inserts one before every statement of instrumented code.
func Point(id string) {
	if s := active.Load(); s != nil && s.noYield == 0 {
		s.yield(id, false)
	}
}

func Gosched() { Point("gosched") }

// BlockYield: the caller cannot make progress; it is disabled until some other thread progresses.
func BlockYield() {
	if s := active.Load(); s != nil {
		if s.noYield != 0 {
			panic("vsched: blocking inside NoYield")
		}
		s.yield(s.cur.lastPt, true)
		return
	}
	time.Sleep(20 * time.Microsecond)
}

// BlockUntilQuiet parks the caller until every other thread is blocked or finished (nothing can move any more).
func BlockUntilQuiet() {
	s := active.Load()
	if s == nil {
		time.Sleep(2 * time.Millisecond)
		return
	}
	t := s.cur
	t.waitQ = true
	t.waitGen = 1 << 62
	s.ring[s.ringPos%len(s.ring)] = traceEnt{t.id, "await-quiet"}
	s.ringPos++
	s.yielded <- t
	<-t.resume
	if s.killing {
		panic(killSentinel{})
	}
}

// NoYield runs f without offering scheduling points (harness bookkeeping on a virtual thread).
func NoYield(f func()) {
	s := active.Load()
	if s == nil {
		f()
		return
	}
	s.noYield++
	defer func() { s.noYield-- }()
	f()
}

func Send[T any](ch chan<- T, v T) {
	if active.Load() == nil {
		ch <- v
		return
	}
	Point("chan.send")
	for {
		select {
		case ch <- v:
			return
		default:
			BlockYield()
		}
	}
}

func Recv[T any](ch <-chan T) T {
	if active.Load() == nil {
		return <-ch
	}
	Point("chan.recv")
	for {
		select {
		case v := <-ch:
			return v
		default:
			BlockYield()
		}
	}
}

func Recv2[T any](ch <-chan T) (T, bool) {
	if active.Load() == nil {
		v, ok := <-ch
		return v, ok
	}
	Point("chan.recv")
	for {
		select {
		case v, ok := <-ch:
			return v, ok
		default:
			BlockYield()
		}
	}
}

func (s *Sched) killAll() {
	s.killing = true
	for _, t := range s.threads {
		for !t.finished {
			s.cur = t
			t.resume <- struct{}{}
			<-s.yielded
		}
	}
}

func stackOf() string {
	b := debug.Stack()
	lines := strings.Split(string(b), "\n")
	// drop the frames of the recover machinery
	if len(lines) > 60 {
		lines = lines[:60]
	}
	return strings.Join(lines, "\n")
}
