// Package vsync mirrors package sync with scheduler-aware blocking primitives.
package vsync

import (
	"sync"

	"github.com/cloudwego/shmipc-go/vsched"
)

type (
	Once   = sync.Once
	Pool   = sync.Pool
	Map    = sync.Map
	Locker = sync.Locker
	Cond   = sync.Cond
)

type Mutex struct{ m sync.Mutex }

func (m *Mutex) Lock() {
	if !vsched.Controlled() {
		m.m.Lock()
		return
	}
	vsched.Point("mutex.lock")
	for !m.m.TryLock() {
		vsched.BlockYield()
	}
}
func (m *Mutex) Unlock()       { m.m.Unlock() }
func (m *Mutex) TryLock() bool { return m.m.TryLock() }

type RWMutex struct{ m sync.RWMutex }

func (m *RWMutex) Lock() {
	if !vsched.Controlled() {
		m.m.Lock()
		return
	}
	vsched.Point("rw.lock")
	for !m.m.TryLock() {
		vsched.BlockYield()
	}
}
func (m *RWMutex) Unlock() { m.m.Unlock() }
func (m *RWMutex) RLock() {
	if !vsched.Controlled() {
		m.m.RLock()
		return
	}
	vsched.Point("rw.rlock")
	for !m.m.TryRLock() {
		vsched.BlockYield()
	}
}
func (m *RWMutex) RUnlock() { m.m.RUnlock() }

type WaitGroup struct {
	mu sync.Mutex
	n  int
	wg sync.WaitGroup
}

func (w *WaitGroup) Add(d int) {
	w.mu.Lock()
	w.n += d
	w.mu.Unlock()
	w.wg.Add(d)
}
func (w *WaitGroup) Done() { w.Add(-1) }
func (w *WaitGroup) Wait() {
	if !vsched.Controlled() {
		w.wg.Wait()
		return
	}
	vsched.Point("wg.wait")
	for {
		w.mu.Lock()
		n := w.n
		w.mu.Unlock()
		if n == 0 {
			return
		}
		vsched.BlockYield()
	}
}
