// Package vsync mirrors package sync with scheduler-aware blocking primitives.
package vsync

import (
	"sync"

	"github.com/cloudwego/shmipc-go/vsched"
)

type (
	Pool   = sync.Pool
	Map    = sync.Map
	Locker = sync.Locker
	Cond   = sync.Cond
)

// Once: sync.Once keeps a real mutex locked while f runs; f contains scheduling points in rewritten code, so a second
// virtual thread calling Do would block its OS thread on that mutex while it is the running thread of the cooperative
// scheduler - the simulation would hang. This Once waits cooperatively instead.
type Once struct {
	o       sync.Once
	state   int32 // 0 not started, 1 running, 2 done (only used under the scheduler: one thread runs at a time)
}

func (o *Once) Do(f func()) {
	if !vsched.Controlled() {
		o.o.Do(f)
		return
	}
	vsched.Point("once.do")
	switch o.state {
	case 2:
		return
	case 1:
		for o.state != 2 {
			vsched.BlockYield()
		}
		return
	}
	o.state = 1
	defer func() { o.state = 2 }()
	f()
}

type Mutex struct{ m sync.Mutex }

func (m *Mutex) Lock() {
	if !vsched.Controlled() {
		m.m.Lock()
		return
	}
	vsched.Point("mutex.lock")
	for !m.m.TryLock() {
		vsched.BlockYield()
	}
}
func (m *Mutex) Unlock()       { m.m.Unlock() }
func (m *Mutex) TryLock() bool { return m.m.TryLock() }

type RWMutex struct{ m sync.RWMutex }

func (m *RWMutex) Lock() {
	if !vsched.Controlled() {
		m.m.Lock()
		return
	}
	vsched.Point("rw.lock")
	for !m.m.TryLock() {
		vsched.BlockYield()
	}
}
func (m *RWMutex) Unlock() { m.m.Unlock() }
func (m *RWMutex) RLock() {
	if !vsched.Controlled() {
		m.m.RLock()
		return
	}
	vsched.Point("rw.rlock")
	for !m.m.TryRLock() {
		vsched.BlockYield()
	}
}
func (m *RWMutex) RUnlock() { m.m.RUnlock() }

type WaitGroup struct {
	mu sync.Mutex
	n  int
	wg sync.WaitGroup
}

func (w *WaitGroup) Add(d int) {
	w.mu.Lock()
	w.n += d
	w.mu.Unlock()
	w.wg.Add(d)
}
func (w *WaitGroup) Done() { w.Add(-1) }
func (w *WaitGroup) Wait() {
	if !vsched.Controlled() {
		w.wg.Wait()
		return
	}
	vsched.Point("wg.wait")
	for {
		w.mu.Lock()
		n := w.n
		w.mu.Unlock()
		if n == 0 {
			return
		}
		vsched.BlockYield()
	}
}
